(* DynCoreLemmas.v — list / arithmetic / merge / lower_bound_bl lemmas used by the DynamicPGMIndex proofs. *)
From Coq Require Import ZArith List Bool Lia ZifyBool.
Require Import Base GenLeaf DynModel DynSpec.
Local Open Scope Z_scope.

(* ---------- sorted runs of items ---------- *)
Fixpoint isrt (l : list item) : Prop :=
  match l with
  | [] => True
  | x :: t => Forall (fun e => it_key x < it_key e) t /\ isrt t
  end.

Lemma ssortedb_cons : forall x l,
  ssortedb (x :: l) = true <-> (Forall (fun y => x < y) l /\ ssortedb l = true).
Proof.
  intros x l; revert x; induction l as [|y l IH]; intros x.
  - cbn. split; auto.
  - change (ssortedb (x :: y :: l)) with ((x <? y) && ssortedb (y :: l)).
    rewrite andb_true_iff, IH. split.
    + intros [Hxy [Hf Hs]]. split; [|split; auto].
      constructor; [lia|]. eapply Forall_impl; [|exact Hf]. cbn; intros; lia.
    + intros [Hf [Hf2 Hs]]. inversion Hf; subst. split; [lia|split; auto].
Qed.

Lemma isrt_iff : forall l, isrt l <-> ssortedb (keys_of l) = true.
Proof.
  induction l as [|x l IH].
  - cbn; tauto.
  - unfold keys_of in *. cbn [map isrt]. rewrite ssortedb_cons, <- IH, Forall_map. tauto.
Qed.

Lemma lookup_none_gt : forall l k, Forall (fun e => k < it_key e) l -> level_lookup l k = None.
Proof.
  unfold level_lookup. induction l as [|x l IH]; intros k Hf; cbn [find]; auto.
  inversion Hf; subst. destruct (it_key x =? k) eqn:E; [lia|auto].
Qed.

Lemma Forall_lt_trans : forall (l : list item) a b, a <= b ->
  Forall (fun e => b < it_key e) l -> Forall (fun e => a < it_key e) l.
Proof. intros l a b Hab Hf. eapply Forall_impl; [|exact Hf]. cbn; intros; lia. Qed.

Lemma lookup_cons : forall x l k,
  level_lookup (x :: l) k = if it_key x =? k then Some x else level_lookup l k.
Proof. reflexivity. Qed.

Lemma lookup_in : forall l k e, level_lookup l k = Some e -> In e l /\ it_key e = k.
Proof.
  unfold level_lookup. intros l k e H. apply find_some in H. destruct H; split; auto. lia.
Qed.

Lemma lookup_some_of_in : forall l e, isrt l -> In e l -> level_lookup l (it_key e) = Some e.
Proof.
  induction l as [|x l IH]; intros e Hs Hin; [destruct Hin|].
  destruct Hs as [Hf Hs]. rewrite lookup_cons. destruct Hin as [->|Hin].
  - rewrite Z.eqb_refl; auto.
  - rewrite Forall_forall in Hf. specialize (Hf e Hin).
    destruct (it_key x =? it_key e) eqn:E; [lia|auto].
Qed.

(* ---------- merge ---------- *)
Lemma merge_nil_l : forall skip b, merge skip [] b = b.
Proof. intros skip b; destruct b; reflexivity. Qed.
Lemma merge_nil_r : forall skip a, merge skip a [] = a.
Proof. intros skip a; destruct a; reflexivity. Qed.
Lemma merge_cons : forall skip x a y b,
  merge skip (x :: a) (y :: b) =
  if it_key y <? it_key x then y :: merge skip (x :: a) b
  else if it_key x <? it_key y then x :: merge skip a (y :: b)
  else if skip && deleted x then merge skip a b
  else x :: merge skip a b.
Proof. reflexivity. Qed.

Lemma merge_in : forall skip a b e, In e (merge skip a b) -> In e a \/ In e b.
Proof.
  intros skip a; induction a as [|x a IHa]; intros b e.
  - rewrite merge_nil_l; auto.
  - induction b as [|y b IHb].
    + rewrite merge_nil_r; auto.
    + rewrite merge_cons.
      destruct (it_key y <? it_key x); [|destruct (it_key x <? it_key y); [|destruct (skip && deleted x)]].
      * intros [->|H]; [right; left; auto|]. apply IHb in H. destruct H; auto. right; right; auto.
      * intros [->|H]; [left; left; auto|]. apply IHa in H. destruct H; auto. left; right; auto.
      * intros H. apply IHa in H. destruct H; [left|right]; right; auto.
      * intros [->|H]; [left; left; auto|]. apply IHa in H. destruct H; [left|right]; right; auto.
Qed.

Lemma merge_length : forall skip a b, zlen (merge skip a b) <= zlen a + zlen b.
Proof.
  unfold zlen. intros skip a; induction a as [|x a IHa]; intros b.
  - rewrite merge_nil_l; cbn; lia.
  - induction b as [|y b IHb].
    + rewrite merge_nil_r; cbn; lia.
    + rewrite merge_cons.
      destruct (it_key y <? it_key x); [|destruct (it_key x <? it_key y); [|destruct (skip && deleted x)]].
      * cbn [length] in *. lia.
      * specialize (IHa (y :: b)). cbn [length] in *. lia.
      * specialize (IHa b). cbn [length] in *. lia.
      * specialize (IHa b). cbn [length] in *. lia.
Qed.

Lemma merge_sorted : forall skip a b, isrt a -> isrt b -> isrt (merge skip a b).
Proof.
  intros skip a; induction a as [|x a IHa]; intros b Ha Hb.
  - rewrite merge_nil_l; auto.
  - induction b as [|y b IHb].
    + rewrite merge_nil_r; auto.
    + rewrite merge_cons. destruct Ha as [Hfa Ha]. destruct Hb as [Hfb Hb].
      destruct (it_key y <? it_key x) eqn:E1; [|destruct (it_key x <? it_key y) eqn:E2; [|destruct (skip && deleted x)]].
      * split; [|apply IHb; auto]. apply Forall_forall. intros e He.
        apply merge_in in He. rewrite Forall_forall in Hfa, Hfb. destruct He as [[->|He]|He].
        -- lia.
        -- specialize (Hfa e He). lia.
        -- auto.
      * split; [|apply IHa; cbn; auto]. apply Forall_forall. intros e He.
        apply merge_in in He. rewrite Forall_forall in Hfa, Hfb. destruct He as [He|[->|He]].
        -- auto.
        -- lia.
        -- specialize (Hfb e He). lia.
      * apply IHa; auto.
      * split; [|apply IHa; auto]. apply Forall_forall. intros e He.
        apply merge_in in He. rewrite Forall_forall in Hfa, Hfb. destruct He as [He|He].
        -- auto.
        -- specialize (Hfb e He). lia.
Qed.

Definition is_some {A} (o : option A) : bool := match o with Some _ => true | None => false end.

Lemma merge_lookup : forall skip a b k, isrt a -> isrt b ->
  level_lookup (merge skip a b) k =
  match level_lookup a k with
  | Some e => if skip && deleted e && is_some (level_lookup b k) then None else Some e
  | None => level_lookup b k
  end.
Proof.
  intros skip a; induction a as [|x a IHa]; intros b k Ha Hb.
  - rewrite merge_nil_l; reflexivity.
  - induction b as [|y b IHb].
    + rewrite merge_nil_r. destruct (level_lookup (x :: a) k); auto.
      cbn. rewrite andb_false_r; auto.
    + rewrite merge_cons. destruct Ha as [Hfa Ha]. destruct Hb as [Hfb Hb].
      assert (Hxa : isrt (x :: a)) by (cbn; auto).
      assert (Hyb : isrt (y :: b)) by (cbn; auto).
      destruct (it_key y <? it_key x) eqn:E1; [|destruct (it_key x <? it_key y) eqn:E2; [|destruct (skip && deleted x) eqn:E3]].
      * rewrite lookup_cons, (IHb Hb). rewrite (lookup_cons y b).
        destruct (it_key y =? k) eqn:Ek; auto.
        rewrite (lookup_none_gt (x :: a) k); auto.
        constructor; [lia|]. eapply Forall_lt_trans; [|exact Hfa]. lia.
      * rewrite lookup_cons, (IHa (y :: b) k Ha Hyb). rewrite (lookup_cons x a).
        destruct (it_key x =? k) eqn:Ek; auto.
        rewrite (lookup_none_gt (y :: b) k).
        -- cbn. rewrite andb_false_r; auto.
        -- constructor; [lia|]. eapply Forall_lt_trans; [|exact Hfb]. lia.
      * rewrite (IHa b k Ha Hb). rewrite (lookup_cons x a), (lookup_cons y b).
        assert (Exy : it_key x = it_key y) by lia.
        destruct (it_key x =? k) eqn:Ek.
        -- assert (Eyk : (it_key y =? k) = true) by lia. rewrite Eyk. cbn [is_some].
           rewrite E3. cbn.
           rewrite (lookup_none_gt a k), (lookup_none_gt b k); auto.
           ++ eapply Forall_lt_trans; [|exact Hfb]; lia.
           ++ eapply Forall_lt_trans; [|exact Hfa]; lia.
        -- assert (Eyk : (it_key y =? k) = false) by lia. rewrite Eyk. auto.
      * rewrite lookup_cons, (IHa b k Ha Hb). rewrite (lookup_cons x a), (lookup_cons y b).
        assert (Exy : it_key x = it_key y) by lia.
        destruct (it_key x =? k) eqn:Ek.
        -- rewrite E3. auto.
        -- assert (Eyk : (it_key y =? k) = false) by lia. rewrite Eyk. auto.
Qed.

(* ---------- first hit across levels ---------- *)
Fixpoint look_levels (ls : list (list item)) (k : Z) : option item :=
  match ls with
  | [] => None
  | l :: rest => match level_lookup l k with Some e => Some e | None => look_levels rest k end
  end.
Definition val_of (o : option item) : option Z := match o with Some e => it_val e | None => None end.

Lemma abs_levels_look : forall ls k, abs_levels ls k = val_of (look_levels ls k).
Proof.
  induction ls as [|l ls IH]; intros k; cbn; auto.
  destruct (level_lookup l k); auto.
Qed.

Lemma look_app : forall A B k,
  look_levels (A ++ B) k = match look_levels A k with Some e => Some e | None => look_levels B k end.
Proof.
  induction A as [|l A IH]; intros B k; cbn; auto.
  destruct (level_lookup l k); auto.
Qed.

Lemma look_all_empty : forall A k, Forall (fun l => l = []) A -> look_levels A k = None.
Proof.
  induction A as [|l A IH]; intros k Hf; cbn; auto.
  inversion Hf; subst. cbn. auto.
Qed.

Lemma look_merge_false : forall a b rest k, isrt a -> isrt b ->
  look_levels (merge false a b :: rest) k = look_levels (a :: b :: rest) k.
Proof.
  intros a b rest k Ha Hb. cbn [look_levels]. rewrite merge_lookup by auto.
  destruct (level_lookup a k); auto.
Qed.

Lemma abs_merge : forall skip a b rest k, isrt a -> isrt b ->
  (skip = true -> forall q, look_levels rest q = None) ->
  abs_levels (merge skip a b :: rest) k = abs_levels (a :: b :: rest) k.
Proof.
  intros skip a b rest k Ha Hb Hr. rewrite !abs_levels_look. cbn [look_levels].
  rewrite merge_lookup by auto.
  destruct (level_lookup a k) as [e|] eqn:Ea; auto.
  destruct (skip && deleted e && is_some (level_lookup b k)) eqn:E; auto.
  assert (skip = true) by (destruct skip; auto). rewrite Hr by auto.
  cbn. unfold deleted in E. destruct (it_val e); auto. rewrite andb_false_r in E. discriminate.
Qed.

(* ---------- the chain of merges performed by merge_levels ---------- *)
Fixpoint mrun (u s : Z) (tmp : list item) (ls : list (list item)) : list item :=
  match ls with
  | [] => tmp
  | l :: rest => mrun u (s + 1) (merge (s =? u - 1) tmp l) rest
  end.
Fixpoint sumlen (ls : list (list item)) : Z :=
  match ls with [] => 0 | l :: rest => zlen l + sumlen rest end.

Lemma mrun_sorted : forall ls u s tmp, isrt tmp -> Forall isrt ls -> isrt (mrun u s tmp ls).
Proof.
  induction ls as [|l ls IH]; intros u s tmp Ht Hf; cbn; auto.
  inversion Hf; subst. apply IH; auto. apply merge_sorted; auto.
Qed.

Lemma mrun_length : forall ls u s tmp, zlen (mrun u s tmp ls) <= zlen tmp + sumlen ls.
Proof.
  induction ls as [|l ls IH]; intros u s tmp; cbn [mrun sumlen]; [lia|].
  specialize (IH u (s + 1) (merge (s =? u - 1) tmp l)).
  pose proof (merge_length (s =? u - 1) tmp l). lia.
Qed.

Lemma mrun_in : forall ls u s tmp e, In e (mrun u s tmp ls) -> In e tmp \/ exists l, In l ls /\ In e l.
Proof.
  induction ls as [|l ls IH]; intros u s tmp e H; cbn in H; auto.
  apply IH in H. destruct H as [H|[l' [H1 H2]]].
  - apply merge_in in H. destruct H; auto. right; exists l; split; [left|]; auto.
  - right; exists l'; split; [right|]; auto.
Qed.

Lemma mrun_abs : forall ls u s tmp rest k, isrt tmp -> Forall isrt ls ->
  s + zlen ls <= u ->
  (s + zlen ls = u -> forall q, look_levels rest q = None) ->
  abs_levels (mrun u s tmp ls :: rest) k = abs_levels (tmp :: ls ++ rest) k.
Proof.
  induction ls as [|l ls IH]; intros u s tmp rest k Ht Hf Hle Hr; cbn [mrun app]; auto.
  inversion Hf; subst. unfold zlen in *. cbn [length] in *.
  rewrite IH; auto; try lia.
  - apply abs_merge; auto. intros E q.
    assert (ls = []) by (destruct ls; auto; cbn [length] in *; lia). subst ls.
    cbn. apply Hr. cbn; lia.
  - apply merge_sorted; auto.
  - intros E. apply Hr. lia.
Qed.

(* ---------- nth_res / set_nth / insert_at ---------- *)
Lemma nth_res_ok : forall A (l : list A) i a,
  nth_res l i = Ok a <-> (0 <= i /\ nth_error l (Z.to_nat i) = Some a).
Proof.
  intros A l i a. unfold nth_res. destruct (i <? 0) eqn:E.
  - split; [discriminate|lia].
  - destruct (nth_error l (Z.to_nat i)) eqn:En; split.
    + intros H; inversion H; subst; split; [lia|auto].
    + intros [_ H]; inversion H; auto.
    + discriminate.
    + intros [_ H]; discriminate.
Qed.

Lemma nth_res_bound : forall A (l : list A) i a, nth_res l i = Ok a -> 0 <= i < zlen l.
Proof.
  intros A l i a H. apply nth_res_ok in H. destruct H as [H0 H].
  assert (Hn : nth_error l (Z.to_nat i) <> None) by congruence.
  apply nth_error_Some in Hn. unfold zlen. lia.
Qed.

Lemma nth_res_total : forall A (l : list A) i, 0 <= i < zlen l -> exists a, nth_res l i = Ok a.
Proof.
  intros A l i H. unfold zlen in H.
  destruct (nth_error l (Z.to_nat i)) eqn:En.
  - exists a. apply nth_res_ok; split; [lia|auto].
  - apply nth_error_None in En. lia.
Qed.

Lemma nth_res_in : forall A (l : list A) i a, nth_res l i = Ok a -> In a l.
Proof. intros A l i a H. apply nth_res_ok in H. destruct H as [_ H]. eapply nth_error_In; eauto. Qed.

Lemma set_nth_length : forall A (l : list A) n a, length (set_nth l n a) = length l.
Proof. induction l as [|x l IH]; intros [|n] a; cbn; auto. Qed.

Lemma set_nth_nth_error : forall A (l : list A) n a m,
  nth_error (set_nth l n a) m =
  if Nat.eqb m n then (if Nat.ltb n (length l) then Some a else None) else nth_error l m.
Proof.
  induction l as [|x l IH]; intros n a m.
  - destruct n; cbn; destruct m; cbn; auto; destruct (Nat.eqb _ _); auto.
  - destruct n as [|n]; destruct m as [|m]; cbn [set_nth nth_error Nat.eqb length]; auto.
    rewrite IH. destruct (Nat.eqb m n); auto.
Qed.

Lemma set_nth_in : forall A (l : list A) n a e, In e (set_nth l n a) -> e = a \/ In e l.
Proof.
  induction l as [|x l IH]; intros [|n] a e H; cbn in *; auto.
  - destruct H; auto.
  - destruct H; auto. apply IH in H. destruct H; auto.
Qed.

Lemma insert_at_length : forall A (l : list A) n a, length (insert_at l n a) = S (length l).
Proof.
  intros A l n; revert l; induction n as [|n IH]; intros l a.
  - destruct l; reflexivity.
  - destruct l; cbn [insert_at length]; auto.
Qed.

Lemma insert_at_in : forall A (l : list A) n a e, In e (insert_at l n a) <-> e = a \/ In e l.
Proof.
  intros A l n; revert l; induction n as [|n IH]; intros l a e.
  - destruct l; cbn; intuition congruence.
  - destruct l as [|x l]; cbn [insert_at In].
    + intuition congruence.
    + rewrite IH. intuition congruence.
Qed.

(* ---------- lower bound position on a sorted run ---------- *)
Definition lbk (l : list item) (q : Z) : Z := lb (keys_of l) q.

Lemma lbk_cons : forall x l q, lbk (x :: l) q = if it_key x <? q then 1 + lbk l q else 0.
Proof. reflexivity. Qed.

Lemma lbk_range : forall l q, 0 <= lbk l q <= zlen l.
Proof.
  unfold zlen. induction l as [|x l IH]; intros q; [cbn; lia|].
  rewrite lbk_cons. specialize (IH q). cbn [length]. destruct (it_key x <? q); lia.
Qed.

Lemma lbk_nth : forall l q, isrt l ->
  level_lookup l q =
  match nth_error l (Z.to_nat (lbk l q)) with
  | Some e => if it_key e =? q then Some e else None
  | None => None
  end.
Proof.
  induction l as [|x l IH]; intros q Hs; [reflexivity|].
  destruct Hs as [Hf Hs]. rewrite lbk_cons, lookup_cons. pose proof (lbk_range l q) as Hr.
  destruct (it_key x <? q) eqn:E.
  - replace (Z.to_nat (1 + lbk l q)) with (S (Z.to_nat (lbk l q))) by lia. cbn [nth_error].
    rewrite <- IH by auto. destruct (it_key x =? q) eqn:E2; [lia|auto].
  - cbn [Z.to_nat nth_error]. destruct (it_key x =? q) eqn:E2; auto.
    apply lookup_none_gt. eapply Forall_lt_trans; [|exact Hf]. lia.
Qed.

(* elements before the lower bound are smaller, elements from it on are >= q *)
Lemma lbk_spec : forall l q j e, isrt l -> nth_error l j = Some e ->
  (Z.of_nat j < lbk l q <-> it_key e < q).
Proof.
  induction l as [|x l IH]; intros q j e Hs Hn; [destruct j; discriminate|].
  destruct Hs as [Hf Hs]. rewrite lbk_cons. pose proof (lbk_range l q) as Hr.
  destruct j as [|j]; cbn [nth_error] in Hn.
  - inversion Hn; subst. destruct (it_key e <? q) eqn:E; lia.
  - specialize (IH q j e Hs Hn). rewrite Forall_forall in Hf.
    apply nth_error_In in Hn. specialize (Hf e Hn).
    destruct (it_key x <? q) eqn:E; lia.
Qed.

Lemma insert_at_sorted : forall l x, isrt l -> level_lookup l (it_key x) = None ->
  isrt (insert_at l (Z.to_nat (lbk l (it_key x))) x).
Proof.
  induction l as [|y l IH]; intros x Hs Hn.
  - cbn. auto.
  - destruct Hs as [Hf Hs]. rewrite lbk_cons. rewrite lookup_cons in Hn.
    pose proof (lbk_range l (it_key x)) as Hr.
    destruct (it_key y =? it_key x) eqn:E0; [discriminate|].
    destruct (it_key y <? it_key x) eqn:E.
    + replace (Z.to_nat (1 + lbk l (it_key x))) with (S (Z.to_nat (lbk l (it_key x)))) by lia.
      cbn [insert_at isrt]. split; [|apply IH; auto].
      apply Forall_forall. intros e He. apply insert_at_in in He.
      rewrite Forall_forall in Hf. destruct He as [->|He]; [lia|auto].
    + cbn [Z.to_nat insert_at isrt]. split; [|split; auto].
      constructor; [lia|]. eapply Forall_lt_trans; [|exact Hf]. lia.
Qed.

Lemma insert_at_lookup : forall l n x k, level_lookup l (it_key x) = None ->
  level_lookup (insert_at l n x) k = if k =? it_key x then Some x else level_lookup l k.
Proof.
  intros l n; revert l; induction n as [|n IH]; intros l x k Hn.
  - destruct l; cbn [insert_at]; rewrite lookup_cons;
      destruct (it_key x =? k) eqn:E, (k =? it_key x) eqn:E'; try lia; auto.
  - destruct l as [|y l]; cbn [insert_at].
    + rewrite lookup_cons. destruct (it_key x =? k) eqn:E, (k =? it_key x) eqn:E'; try lia; auto.
    + rewrite lookup_cons in Hn. destruct (it_key y =? it_key x) eqn:E0; [discriminate|].
      rewrite !lookup_cons, IH by auto.
      destruct (it_key y =? k) eqn:E, (k =? it_key x) eqn:E'; try lia; auto.
Qed.

Lemma set_nth_keys : forall l n x e, nth_error l n = Some e -> it_key e = it_key x ->
  keys_of (set_nth l n x) = keys_of l.
Proof.
  unfold keys_of. induction l as [|y l IH]; intros n x e Hn He; [destruct n; discriminate|].
  destruct n as [|n]; cbn [nth_error set_nth map] in *.
  - inversion Hn; subst. congruence.
  - f_equal. eapply IH; eauto.
Qed.

Lemma set_nth_sorted : forall l n x e, isrt l -> nth_error l n = Some e -> it_key e = it_key x ->
  isrt (set_nth l n x).
Proof.
  intros l n x e Hs Hn He. apply isrt_iff. erewrite set_nth_keys by eauto. apply isrt_iff; auto.
Qed.

Lemma set_nth_lookup : forall l n x e k, isrt l -> nth_error l n = Some e -> it_key e = it_key x ->
  level_lookup (set_nth l n x) k = if k =? it_key x then Some x else level_lookup l k.
Proof.
  induction l as [|y l IH]; intros n x e k Hs Hn He; [destruct n; discriminate|].
  destruct Hs as [Hf Hs].
  destruct n as [|n]; cbn [nth_error set_nth] in *.
  - inversion Hn; subst. rewrite !lookup_cons.
    destruct (it_key x =? k) eqn:E, (k =? it_key x) eqn:E', (it_key e =? k) eqn:E''; try lia; auto.
  - rewrite !lookup_cons. erewrite IH by eauto.
    apply nth_error_In in Hn. rewrite Forall_forall in Hf. specialize (Hf e Hn).
    destruct (it_key y =? k) eqn:E, (k =? it_key x) eqn:E'; try lia; auto.
Qed.

(* ---------- lower_bound_bl ---------- *)
Lemma key_at_ok : forall l i k, key_at l i = Ok k <-> exists e, nth_res l i = Ok e /\ it_key e = k.
Proof.
  intros l i k. unfold key_at. destruct (nth_res l i) as [e|]; cbn.
  - split; [intros H; inversion H; eauto|intros [e' [H1 H2]]; inversion H1; subst; auto].
  - split; [discriminate|intros [e' [H1 _]]; discriminate].
Qed.

Lemma lbbl_loop_correct : forall fuel l first n x r, isrt l ->
  1 <= n -> 0 <= first -> first + n <= zlen l ->
  first <= lbk l x <= first + n ->
  lbbl_loop fuel l first n x = Ok r ->
  0 <= r < zlen l /\ r <= lbk l x <= r + 1.
Proof.
  induction fuel as [|fuel IH]; intros l first n x r Hs Hn Hf Hfn Hlb H; [discriminate|].
  cbn [lbbl_loop] in H. destruct (n >? 1) eqn:En.
  - destruct (key_at l (first + n / 2)) as [kh|] eqn:Ek; [|discriminate]. cbn [bind] in H.
    apply key_at_ok in Ek. destruct Ek as [e [He Hk]]. apply nth_res_ok in He. destruct He as [_ He].
    pose proof (lbk_spec l x _ e Hs He) as Hsp.
    assert (Hh : 1 <= n / 2 /\ n / 2 <= n - n / 2).
    { assert (n = 2 * (n / 2) + n mod 2) by (apply Z.div_mod; lia).
      assert (0 <= n mod 2 < 2) by (apply Z.mod_pos_bound; lia). lia. }
    rewrite Z2Nat.id in Hsp by lia.
    apply IH in H; auto; try lia; destruct (kh <? x) eqn:E; lia.
  - inversion H; subst. lia.
Qed.

Lemma lower_bound_bl_correct : forall l lo hi x r, isrt l ->
  0 <= lo -> lo <= lbk l x <= hi -> hi <= zlen l ->
  lower_bound_bl l lo hi x = Ok r -> r = lbk l x.
Proof.
  intros l lo hi x r Hs Hlo Hlb Hhi H. unfold lower_bound_bl in H.
  destruct (lo =? hi) eqn:E.
  - inversion H; subst. lia.
  - destruct (lbbl_loop 70 l lo (hi - lo) x) as [f|] eqn:Ef; [|discriminate]. cbn [bind] in H.
    apply lbbl_loop_correct in Ef; auto; try lia.
    destruct (key_at l f) as [kf|] eqn:Ek; [|discriminate]. cbn [bind] in H.
    apply key_at_ok in Ek. destruct Ek as [e [He Hk]]. apply nth_res_ok in He. destruct He as [_ He].
    pose proof (lbk_spec l x _ e Hs He) as Hsp. rewrite Z2Nat.id in Hsp by lia.
    inversion H; subst. destruct (it_key e <? x) eqn:E2; lia.
Qed.

Lemma lbbl_loop_total : forall k l first n x,
  1 <= n <= 2 ^ Z.of_nat k -> 0 <= first -> first + n <= zlen l ->
  exists r, lbbl_loop (S k) l first n x = Ok r.
Proof.
  induction k as [|k IH]; intros l first n x Hn Hf Hfn.
  - cbn [lbbl_loop]. assert (n = 1) by (cbn in Hn; lia). subst n. cbn. eauto.
  - remember (S k) as k1. cbn [lbbl_loop]. destruct (n >? 1) eqn:En; [|eauto].
    assert (Hh : 1 <= n / 2 /\ n / 2 <= n - n / 2 /\ n - n / 2 <= 2 ^ Z.of_nat k).
    { assert (n = 2 * (n / 2) + n mod 2) by (apply Z.div_mod; lia).
      assert (0 <= n mod 2 < 2) by (apply Z.mod_pos_bound; lia).
      assert (2 ^ Z.of_nat k1 = 2 * 2 ^ Z.of_nat k).
      { subst k1. rewrite Nat2Z.inj_succ, Z.pow_succ_r by lia. auto. }
      lia. }
    destruct (nth_res_total _ l (first + n / 2)) as [e He]; [lia|].
    unfold key_at. rewrite He. cbn [bind]. subst k1.
    apply IH; destruct (it_key e <? x); lia.
Qed.

Lemma lbbl_loop_range : forall fuel l first n x r, 1 <= n ->
  lbbl_loop fuel l first n x = Ok r -> first <= r < first + n.
Proof.
  induction fuel as [|fuel IH]; intros l first n x r Hn H; [discriminate|].
  cbn [lbbl_loop] in H. destruct (n >? 1) eqn:En.
  - destruct (key_at l (first + n / 2)) as [kh|]; [|discriminate]. cbn [bind] in H.
    assert (Hh : 1 <= n / 2 /\ n / 2 <= n - n / 2).
    { assert (n = 2 * (n / 2) + n mod 2) by (apply Z.div_mod; lia).
      assert (0 <= n mod 2 < 2) by (apply Z.mod_pos_bound; lia). lia. }
    apply IH in H; [|lia]. destruct (kh <? x); lia.
  - inversion H; subst. lia.
Qed.

Lemma lower_bound_bl_total : forall l lo hi x,
  0 <= lo <= hi -> hi <= zlen l -> zlen l <= 2 ^ 69 ->
  exists r, lower_bound_bl l lo hi x = Ok r.
Proof.
  intros l lo hi x Hlo Hhi Hsz. unfold lower_bound_bl.
  destruct (lo =? hi) eqn:E; [eauto|].
  destruct (lbbl_loop_total 69 l lo (hi - lo) x) as [f Hf]; try lia.
  change (S 69) with 70%nat in Hf. rewrite Hf. cbn [bind].
  apply lbbl_loop_range in Hf; [|lia].
  destruct (nth_res_total _ l f) as [e He]; [lia|].
  unfold key_at. rewrite He. cbn [bind]. eauto.
Qed.

(* ---------- arithmetic of level capacities ---------- *)
Lemma wrapU_small : forall w z, 0 <= z < 2 ^ w -> wrapU w z = z.
Proof. intros w z H. unfold wrapU. apply Z.mod_small; auto. Qed.

Lemma wrapU_range : forall w z, 0 <= w -> 0 <= wrapU w z < 2 ^ w.
Proof. intros w z H. unfold wrapU. apply Z.mod_pos_bound. apply Z.pow_pos_nonneg; lia. Qed.

Lemma max_size_pow : forall base i, dyn_max_size base i = 2 ^ (i * ceil_log2 base).
Proof.
  intros base i. unfold dyn_max_size. rewrite wrapU_small by (cbn; lia). apply Z.shiftl_1_l.
Qed.

Lemma ceil_log2_range : forall n, 0 <= ceil_log2 n < 256.
Proof. intros n. unfold ceil_log2. apply (wrapU_range 8); lia. Qed.

Lemma ceil_log2_big : forall n, 2 <= n < 2 ^ 64 -> ceil_log2 n = 1 + Z.log2 (n - 1) /\ 1 <= ceil_log2 n <= 64.
Proof.
  intros n Hn. unfold ceil_log2, clzll.
  assert (E : (n <=? 1) = false) by lia. rewrite E.
  pose proof (Z.log2_nonneg (n - 1)).
  assert (Z.log2 (n - 1) < 64) by (apply Z.log2_lt_pow2; lia).
  rewrite wrapU_small by (change (2 ^ 8) with 256; lia). lia.
Qed.

Lemma ceil_log2_ge : forall n, 0 <= n < 2 ^ 64 -> n <= 2 ^ ceil_log2 n.
Proof.
  intros n Hn. destruct (Z_lt_dec n 2) as [Hs|Hb].
  - pose proof (ceil_log2_range n). assert (0 < 2 ^ ceil_log2 n) by (apply Z.pow_pos_nonneg; lia).
    lia.
  - destruct (ceil_log2_big n) as [E _]; [lia|]. rewrite E.
    pose proof (Z.log2_spec (n - 1)). replace (1 + Z.log2 (n - 1)) with (Z.succ (Z.log2 (n - 1))) by lia. lia.
Qed.

Lemma max_size_pos : forall base i, 0 <= i -> 1 <= dyn_max_size base i.
Proof.
  intros base i Hi. rewrite max_size_pow. pose proof (ceil_log2_range base).
  assert (0 < 2 ^ (i * ceil_log2 base)) by (apply Z.pow_pos_nonneg; nia). lia.
Qed.

Lemma max_size_succ : forall base i, 0 <= i -> 1 <= ceil_log2 base ->
  2 * dyn_max_size base i <= dyn_max_size base (i + 1).
Proof.
  intros base i Hi Hb. rewrite !max_size_pow.
  replace ((i + 1) * ceil_log2 base) with (i * ceil_log2 base + ceil_log2 base) by ring.
  rewrite Z.pow_add_r by nia.
  assert (2 ^ 1 <= 2 ^ ceil_log2 base) by (apply Z.pow_le_mono_r; lia).
  assert (0 < 2 ^ (i * ceil_log2 base)) by (apply Z.pow_pos_nonneg; nia).
  change (2 ^ 1) with 2 in *. nia.
Qed.

Lemma max_size_mono : forall base i j, 0 <= i <= j -> dyn_max_size base i <= dyn_max_size base j.
Proof.
  intros base i j H. rewrite !max_size_pow. pose proof (ceil_log2_range base).
  apply Z.pow_le_mono_r; [lia|nia].
Qed.

Lemma zseq_app : forall n m s, zseq s (n + m) = zseq s n ++ zseq (s + Z.of_nat n) m.
Proof.
  induction n as [|n IH]; intros m s.
  - cbn. f_equal. lia.
  - cbn [plus zseq app]. f_equal. rewrite IH. f_equal. f_equal. lia.
Qed.

Lemma zseq_length : forall n s, length (zseq s n) = n.
Proof. induction n as [|n IH]; intros s; cbn; auto. Qed.

Lemma zseq_in : forall n s x, In x (zseq s n) <-> s <= x < s + Z.of_nat n.
Proof.
  induction n as [|n IH]; intros s x.
  - cbn. lia.
  - cbn [zseq In]. rewrite IH. lia.
Qed.

Lemma buffer_sum_app : forall base a b, buffer_sum base (a ++ b) = buffer_sum base a + buffer_sum base b.
Proof. induction a as [|x a IH]; intros b; cbn [app buffer_sum]; [lia|]. rewrite IH. lia. Qed.

Lemma buffer_sum_geom : forall base n, 1 <= ceil_log2 base ->
  1 + buffer_sum base (zseq 0 n) <= dyn_max_size base (Z.of_nat n).
Proof.
  intros base n Hb. induction n as [|n IH].
  - cbn [zseq buffer_sum]. pose proof (max_size_pos base 0). cbn in *. lia.
  - replace (S n) with (n + 1)%nat by lia. rewrite zseq_app, buffer_sum_app.
    cbn [zseq buffer_sum]. pose proof (max_size_succ base (Z.of_nat n)).
    replace (Z.of_nat (n + 1)) with (Z.of_nat n + 1) by lia.
    replace (0 + Z.of_nat n) with (Z.of_nat n) by lia. lia.
Qed.

Lemma buffer_sum_nonneg : forall base js, Forall (fun j => 0 <= j) js -> 0 <= buffer_sum base js.
Proof.
  induction js as [|j js IH]; intros Hf; cbn [buffer_sum]; [lia|].
  inversion Hf; subst. pose proof (max_size_pos base j). specialize (IH H2). lia.
Qed.

Lemma ceil_log_base_spec : forall base n, 1 <= ceil_log2 base -> 0 <= n < 2 ^ 64 ->
  0 <= dyn_ceil_log_base base n <= 64 /\ n <= dyn_max_size base (dyn_ceil_log_base base n).
Proof.
  intros base n Hb Hn. unfold dyn_ceil_log_base.
  set (b := ceil_log2 base) in *. set (c := ceil_log2 n).
  assert (Hc : 0 <= c <= 64).
  { subst c. destruct (Z_lt_dec n 2).
    - unfold ceil_log2. assert (E : (n <=? 1) = true) by lia. rewrite E. cbn. lia.
    - destruct (ceil_log2_big n); lia. }
  rewrite Z.quot_div_nonneg by lia.
  assert (Hq : 0 <= (c + b - 1) / b <= 64 /\ c <= (c + b - 1) / b * b).
  { assert (c + b - 1 = b * ((c + b - 1) / b) + (c + b - 1) mod b) by (apply Z.div_mod; lia).
    assert (0 <= (c + b - 1) mod b < b) by (apply Z.mod_pos_bound; lia).
    assert (0 <= (c + b - 1) / b) by (apply Z.div_pos; lia). nia. }
  rewrite wrapU_small by (change (2 ^ 8) with 256; lia).
  split; [lia|]. rewrite max_size_pow. fold b.
  pose proof (ceil_log2_ge n Hn). fold c in H.
  assert (2 ^ c <= 2 ^ ((c + b - 1) / b * b)) by (apply Z.pow_le_mono_r; lia). lia.
Qed.

Lemma nth_res_set_nth : forall A (l : list A) n a j, 0 <= n < zlen l ->
  nth_res (set_nth l (Z.to_nat n) a) j = if j =? n then Ok a else nth_res l j.
Proof.
  intros A l n a j Hn. unfold nth_res, zlen in *. destruct (j <? 0) eqn:Ej.
  - destruct (j =? n) eqn:E; [lia|auto].
  - rewrite set_nth_nth_error. destruct (j =? n) eqn:E.
    + assert (E1 : Nat.eqb (Z.to_nat j) (Z.to_nat n) = true) by (apply Nat.eqb_eq; lia). rewrite E1.
      assert (E2 : Nat.ltb (Z.to_nat n) (length l) = true) by (apply Nat.ltb_lt; lia). rewrite E2. auto.
    + assert (E1 : Nat.eqb (Z.to_nat j) (Z.to_nat n) = false) by (apply Nat.eqb_neq; lia). rewrite E1. auto.
Qed.

Lemma nth_res_app_l : forall A (l l' : list A) j a, nth_res l j = Ok a -> nth_res (l ++ l') j = Ok a.
Proof.
  intros A l l' j a H. apply nth_res_ok in H. destruct H as [H0 H]. apply nth_res_ok. split; auto.
  rewrite nth_error_app1; auto. apply nth_error_Some. congruence.
Qed.

Lemma nth_res_snoc : forall A (l : list A) x j,
  nth_res (l ++ [x]) j = if j =? zlen l then Ok x else nth_res l j.
Proof.
  intros A l x j. unfold nth_res, zlen. destruct (j <? 0) eqn:Ej.
  - destruct (j =? Z.of_nat (length l)) eqn:E; [lia|auto].
  - destruct (j =? Z.of_nat (length l)) eqn:E.
    + rewrite nth_error_app2 by lia. replace (Z.to_nat j - length l)%nat with 0%nat by lia. auto.
    + destruct (Z_lt_dec j (Z.of_nat (length l))).
      * rewrite nth_error_app1 by lia. auto.
      * assert (E1 : nth_error (l ++ [x]) (Z.to_nat j) = None).
        { apply nth_error_None. rewrite app_length. cbn. lia. }
        assert (E2 : nth_error l (Z.to_nat j) = None) by (apply nth_error_None; lia).
        rewrite E1, E2. auto.
Qed.

Lemma nth_res_repeat : forall A (x : A) n j a, nth_res (repeat x n) j = Ok a -> a = x.
Proof. intros A x n j a H. apply nth_res_in in H. apply repeat_spec in H. auto. Qed.

(* ---------- more list lemmas ---------- *)
Lemma skipn_nth_error : forall A (l : list A) p a, nth_error l p = Some a -> skipn p l = a :: skipn (S p) l.
Proof.
  induction l as [|x l IH]; intros p a H; [destruct p; discriminate|].
  destruct p as [|p]; cbn [nth_error] in H.
  - inversion H; subst. reflexivity.
  - cbn [skipn]. rewrite (IH p a H). reflexivity.
Qed.

Lemma skipn_set_nth : forall A (l : list A) p q x, (p < q)%nat -> skipn q (set_nth l p x) = skipn q l.
Proof.
  induction l as [|y l IH]; intros p q x H.
  - destruct p; reflexivity.
  - destruct q as [|q]; [lia|]. destruct p as [|p]; cbn [set_nth skipn]; auto. apply IH. lia.
Qed.

Definition lvl (L : list (list item)) (p : nat) : list item := nth p L [].

Lemma look_nil_ext : forall B k, (forall p, level_lookup (lvl B p) k = None) -> look_levels B k = None.
Proof.
  induction B as [|b B IH]; intros k H; [reflexivity|].
  cbn [look_levels]. pose proof (H 0%nat) as H0. unfold lvl in H0; cbn [nth] in H0. rewrite H0.
  apply IH. intros p. apply (H (S p)).
Qed.

Lemma look_ext : forall A B k, (forall p, level_lookup (lvl A p) k = level_lookup (lvl B p) k) ->
  look_levels A k = look_levels B k.
Proof.
  induction A as [|a A IH]; intros B k H.
  - symmetry. apply look_nil_ext. intros p. rewrite <- H. unfold lvl. destruct p; reflexivity.
  - destruct B as [|b B].
    + apply look_nil_ext. intros p. rewrite H. unfold lvl. destruct p; reflexivity.
    + cbn [look_levels]. pose proof (H 0%nat) as H0. unfold lvl in H0; cbn [nth] in H0. rewrite H0.
      rewrite (IH B k); auto. intros p. apply (H (S p)).
Qed.

Lemma nth_res_lvl : forall (L : list (list item)) p,
  lvl L p = match nth_res L (Z.of_nat p) with Ok l => l | Err _ => [] end.
Proof.
  intros L p. unfold lvl, nth_res. assert (E : (Z.of_nat p <? 0) = false) by lia. rewrite E.
  rewrite Nat2Z.id. destruct (nth_error L p) eqn:En.
  - apply nth_error_nth; auto.
  - apply nth_overflow. apply nth_error_None; auto.
Qed.

(* ---------- bulk load: dedup_sorted ---------- *)
Lemma dedup_sorted_spec : forall l prev r, dedup_sorted prev l = Ok r ->
  Forall (fun e => prev < it_key e) r /\ isrt r /\ zlen r <= zlen l /\
  (forall e, In e r -> exists v, In (it_key e, v) l /\ it_val e = Some v) /\
  Forall (fun p => prev <= fst p) l.
Proof.
  induction l as [|[k v] l IH]; intros prev r H.
  - cbn in H. inversion H; subst. cbn. repeat split; auto; try lia; intros e [].
  - cbn [dedup_sorted] in H. destruct (k <? prev) eqn:E1; [discriminate|].
    destruct (k =? prev) eqn:E2.
    + apply IH in H. destruct H as [Hf [Hs [Hz [Hin Hall]]]].
      unfold zlen in *. cbn [length]. repeat split; auto; try lia.
      * intros e He. destruct (Hin e He) as [v' [H1 H2]]. exists v'. split; [right|]; auto.
      * constructor; [cbn; lia|auto].
    + destruct (dedup_sorted k l) as [r'|] eqn:Er; [|discriminate]. cbn [bind] in H.
      inversion H; subst; clear H. apply IH in Er. destruct Er as [Hf [Hs [Hz [Hin Hall]]]].
      unfold zlen in *. cbn [length isrt]. repeat split; auto; try lia.
      * constructor; [cbn; lia|]. eapply Forall_lt_trans; [|exact Hf]. lia.
      * intros e [<-|He].
        -- exists v. cbn. split; auto.
        -- destruct (Hin e He) as [v' [H1 H2]]. exists v'. split; [right|]; auto.
      * constructor; [cbn; lia|]. eapply Forall_impl; [|exact Hall]. cbn; intros; lia.
Qed.

(* ---------- the abstract map ---------- *)
Fixpoint amsrt (m : amap) : Prop :=
  match m with
  | [] => True
  | p :: t => Forall (fun q => fst p < fst q) t /\ amsrt t
  end.

Lemma am_find_insert : forall m k v q, am_find q (am_insert k v m) = if q =? k then Some v else am_find q m.
Proof.
  induction m as [|[k' v'] m IH]; intros k v q.
  - cbn. destruct (q =? k); auto.
  - cbn [am_insert]. destruct (k <? k') eqn:E1; [|destruct (k =? k') eqn:E2].
    + cbn [am_find]. destruct (q =? k); auto.
    + cbn [am_find]. destruct (q =? k) eqn:E3, (q =? k') eqn:E4; try lia; auto.
    + cbn [am_find]. rewrite IH. destruct (q =? k) eqn:E3, (q =? k') eqn:E4; try lia; auto.
Qed.

Lemma am_find_none_gt : forall m q, Forall (fun p => q < fst p) m -> am_find q m = None.
Proof.
  induction m as [|[k v] m IH]; intros q H; [reflexivity|].
  inversion H; subst. cbn in *. destruct (q =? k) eqn:E; [lia|auto].
Qed.

Lemma am_find_erase : forall m k q, amsrt m ->
  am_find q (am_erase k m) = if q =? k then None else am_find q m.
Proof.
  induction m as [|[k' v'] m IH]; intros k q Hs.
  - cbn. destruct (q =? k); auto.
  - destruct Hs as [Hf Hs]. cbn [am_erase]. destruct (k =? k') eqn:E1.
    + cbn [am_find]. destruct (q =? k) eqn:E2.
      * apply am_find_none_gt. eapply Forall_impl; [|exact Hf]. cbn; intros; lia.
      * destruct (q =? k') eqn:E3; [lia|auto].
    + cbn [am_find]. rewrite IH by auto. destruct (q =? k) eqn:E2, (q =? k') eqn:E3; try lia; auto.
Qed.

Lemma am_insert_in : forall m k v p, In p (am_insert k v m) -> p = (k, v) \/ In p m.
Proof.
  induction m as [|[k' v'] m IH]; intros k v p H.
  - cbn in H. destruct H as [<-|[]]; auto.
  - cbn [am_insert] in H. destruct (k <? k'); [|destruct (k =? k')].
    + destruct H as [<-|H]; auto.
    + destruct H as [<-|H]; auto. right; right; auto.
    + destruct H as [<-|H]; [right; left; auto|]. apply IH in H. destruct H; auto. right; right; auto.
Qed.

Lemma am_insert_sorted : forall m k v, amsrt m -> amsrt (am_insert k v m).
Proof.
  induction m as [|[k' v'] m IH]; intros k v Hs.
  - cbn. auto.
  - destruct Hs as [Hf Hs]. cbn [am_insert]. destruct (k <? k') eqn:E1; [|destruct (k =? k') eqn:E2].
    + cbn [amsrt]. split; [|split; auto]. constructor; [cbn; lia|].
      eapply Forall_impl; [|exact Hf]. cbn; intros; lia.
    + cbn [amsrt]. split; auto. eapply Forall_impl; [|exact Hf]. cbn; intros; lia.
    + cbn [amsrt]. split; [|apply IH; auto]. apply Forall_forall. intros p Hp.
      apply am_insert_in in Hp. rewrite Forall_forall in Hf. destruct Hp as [->|Hp]; [cbn; lia|auto].
Qed.

Lemma am_erase_in : forall m k p, In p (am_erase k m) -> In p m.
Proof.
  induction m as [|[k' v'] m IH]; intros k p H; [destruct H|].
  cbn [am_erase] in H. destruct (k =? k'); [right; auto|].
  destruct H as [<-|H]; [left; auto|right; eapply IH; eauto].
Qed.

Lemma am_erase_sorted : forall m k, amsrt m -> amsrt (am_erase k m).
Proof.
  induction m as [|[k' v'] m IH]; intros k Hs; [cbn; auto|].
  destruct Hs as [Hf Hs]. cbn [am_erase]. destruct (k =? k'); auto.
  cbn [amsrt]. split; [|apply IH; auto]. apply Forall_forall. intros p Hp.
  apply am_erase_in in Hp. rewrite Forall_forall in Hf. auto.
Qed.

Lemma am_bulk_sorted : forall l, amsrt (am_bulk l).
Proof. induction l as [|p l IH]; cbn; auto. apply am_insert_sorted; auto. Qed.

Lemma am_find_bulk_cons : forall k v l q,
  am_find q (am_bulk ((k, v) :: l)) = if q =? k then Some v else am_find q (am_bulk l).
Proof. intros k v l q. cbn [am_bulk fold_right fst snd]. apply am_find_insert. Qed.

Lemma am_find_bulk_none : forall l q, Forall (fun p => fst p <> q) l -> am_find q (am_bulk l) = None.
Proof.
  induction l as [|[k v] l IH]; intros q H; [reflexivity|].
  inversion H; subst. rewrite am_find_bulk_cons. cbn in *. destruct (q =? k) eqn:E; [lia|auto].
Qed.

Lemma dedup_lookup : forall l prev r, dedup_sorted prev l = Ok r ->
  forall q, val_of (level_lookup r q) = if q <=? prev then None else am_find q (am_bulk l).
Proof.
  induction l as [|[k v] l IH]; intros prev r H q.
  - cbn in H. inversion H; subst. cbn. destruct (q <=? prev); auto.
  - pose proof (dedup_sorted_spec _ _ _ H) as [Hf _].
    rewrite am_find_bulk_cons. cbn [dedup_sorted] in H.
    destruct (k <? prev) eqn:E1; [discriminate|]. destruct (k =? prev) eqn:E2.
    + rewrite (IH _ _ H q). destruct (q <=? prev) eqn:E3; auto. destruct (q =? k) eqn:E4; [lia|auto].
    + destruct (dedup_sorted k l) as [r'|] eqn:Er; [|discriminate]. cbn [bind] in H.
      inversion H; subst; clear H. rewrite lookup_cons. cbn [it_key].
      pose proof (dedup_sorted_spec _ _ _ Er) as [_ [_ [_ [_ Hall]]]].
      destruct (k =? q) eqn:E3.
      * cbn. destruct (q <=? prev) eqn:E4; [lia|]. destruct (q =? k) eqn:E5; [auto|lia].
      * rewrite (IH _ _ Er q). destruct (q =? k) eqn:E5; [lia|].
        destruct (q <=? k) eqn:E6, (q <=? prev) eqn:E7; try lia; auto.
        symmetry. apply am_find_bulk_none. eapply Forall_impl; [|exact Hall]. cbn; intros; lia.
Qed.

Lemma look_set_nth_repeat : forall n j (items : list item) k, (j < n)%nat ->
  look_levels (set_nth (repeat [] n) j items) k = level_lookup items k.
Proof.
  induction n as [|n IH]; intros j items k Hj; [lia|].
  destruct j as [|j]; cbn [repeat set_nth look_levels].
  - rewrite look_all_empty; [destruct (level_lookup items k); auto|].
    apply Forall_forall. intros l Hl. apply repeat_spec in Hl. auto.
  - change (level_lookup [] k) with (@None item). apply IH. lia.
Qed.

(* ComposeEfExample.v — non-vacuity of ComposeEf.ef_contract_total_double / ComposeEfFloat.ef_contract_total:
   a concrete EliasFanoPGMIndex<uint64_t, 2, double|float> over 42 keys (5 real segments + sentinel),
   built by vm_compute, with the side conditions of the theorems discharged and searches cross-checked. *)
Require Import Base Fp PlaModel GenLeaf IndexModel IndexProofs VariantsModel FloatOk ComposeIdx ComposeEf ComposeEfFloat.
From Coq Require Import ZifyBool.
Local Open Scope Z_scope.

Definition exd : list Z :=
  [3; 5; 8; 13; 21; 34; 55; 89; 144; 233; 377; 610; 987; 1000; 1001; 1002; 1003; 1004; 1005; 1006;
   1007; 1500; 2000; 2500; 3000; 3500; 4000; 4001; 4002; 4003; 5000; 7000; 10000; 10001; 10002; 20000;
   40000; 80000; 160000; 320000; 320001; 18446744073709551000].
Definition exc64 : cfg := mkCfg (mkK 64 false) 2 4 true 1 false.     (* Floating = double *)
Definition exc32 : cfg := mkCfg (mkK 64 false) 2 4 false 1 false.    (* Floating = float *)
Definition ex_wl : Z := 4.

Lemma exc64_ok : ef_ok exc64.
Proof. constructor; cbn; try lia; try reflexivity. right. right. right. reflexivity. Qed.
Lemma exc32_ok : ef_ok exc32.
Proof. constructor; cbn; try lia; try reflexivity. right. right. right. reflexivity. Qed.

Lemma exd_ok c : c_kt c = mkK 64 false -> data_ok c exd.
Proof.
  intros Ek. constructor.
  - discriminate.
  - vm_compute. reflexivity.
  - rewrite Ek. apply Forall_forall. intros x Hx. vm_compute in Hx.
    repeat (destruct Hx as [<-|Hx]; [vm_compute; reflexivity|]). contradiction.
  - unfold sentinel. rewrite Ek. vm_compute. reflexivity.
  - vm_compute. reflexivity.
Qed.

(* the theorems instantiated: nothing left to assume *)
Example ex_contract_double :
  exists x, ef_index_build exc64 ex_wl exd = Ok x /\
    forall q, q < sentinel exc64 ->
      exists a, ef_search exc64 x q = Ok a /\
        0 <= a_lo a <= lb exd q /\ lb exd q <= a_hi a <= zlen exd /\
        (In q exd -> lb exd q < a_hi a) /\ a_hi a - a_lo a <= 2 * c_eps exc64 + 2.
Proof.
  apply ef_contract_total_double; [exact exc64_ok | reflexivity | unfold ex_wl; lia | apply exd_ok; reflexivity |].
  vm_compute. reflexivity.
Qed.

Example ex_contract_float :
  exists x, ef_index_build exc32 ex_wl exd = Ok x /\
    forall q, in_ktype (c_kt exc32) q = true -> q < sentinel exc32 ->
      exists a, ef_search exc32 x q = Ok a /\
        0 <= a_lo a <= lb exd q /\ lb exd q <= a_hi a <= zlen exd /\
        (In q exd -> lb exd q < a_hi a) /\ a_hi a - a_lo a <= 2 * c_eps exc32 + 2.
Proof.
  apply ef_contract_total; [exact exc32_ok | unfold ex_wl; lia | apply exd_ok; reflexivity |].
  unfold ef_size_ok. cbn [exc32 c_fdouble]. vm_compute. discriminate.
Qed.

(* the built structures: 6 segments (5 real + the sentinel), int32 intercepts, 5 stored keys *)
Definition ex_shape (c : cfg) : option (Z * Z * list Z * list Z) :=
  match ef_index_build c ex_wl exd with
  | Ok x => Some (ei_n x, ei_first x, map es_icpt (ei_segments x), ef_values (ei_ef x))
  | Err _ => None
  end.
Example ex_build_double : ex_shape exc64 = Some (42, 3, [2; 8; 18; 32; 38; 42], [0; 374; 1001; 6997; 319997]).
Proof. vm_compute. reflexivity. Qed.
Example ex_build_float : ex_shape exc32 = Some (42, 3, [2; 8; 18; 32; 38; 42], [0; 374; 1001; 6997; 319997]).
Proof. vm_compute. reflexivity. Qed.

(* searches cross-checked by evaluation: (pos, lo, hi) and the true lower_bound *)
Definition ex_search (c : cfg) (q : Z) : option (Z * Z * Z * Z) :=
  match ef_index_build c ex_wl exd with
  | Ok x => match ef_search c x q with Ok a => Some (a_pos a, a_lo a, a_hi a, lb exd q) | Err _ => None end
  | Err _ => None
  end.
Example ex_search_1003_double : ex_search exc64 1003 = Some (14, 12, 18, 16).
Proof. vm_compute. reflexivity. Qed.
Example ex_search_1003_float : ex_search exc32 1003 = Some (14, 12, 18, 16).
Proof. vm_compute. reflexivity. Qed.
Example ex_search_many_double :
  map (ex_search exc64) [0; 3; 4; 3999; 320001; 18446744073709551000; 18446744073709551614]
  = [Some (2, 0, 6, 0); Some (2, 0, 6, 0); Some (2, 0, 6, 1); Some (28, 26, 32, 26); Some (38, 36, 42, 40);
     Some (42, 40, 42, 41); Some (42, 40, 42, 42)].
Proof. vm_compute. reflexivity. Qed.
Example ex_search_many_float :
  map (ex_search exc32) [0; 3; 4; 3999; 320001; 18446744073709551000; 18446744073709551614]
  = map (ex_search exc64) [0; 3; 4; 3999; 320001; 18446744073709551000; 18446744073709551614].
Proof. vm_compute. reflexivity. Qed.

(* every key of the data set and every gap, checked against the contract by evaluation (both types) *)
Definition ex_check (c : cfg) (q : Z) : bool :=
  match ex_search c q with
  | Some (_, lo, hi, r) => (0 <=? lo) && (lo <=? r) && (r <=? hi) && (hi <=? 42) && (hi - lo <=? 2 * 2 + 2)
                           && (negb (existsb (Z.eqb q) exd) || (r <? hi))
  | None => false
  end.
Example ex_check_all : forallb (fun q => ex_check exc64 q && ex_check exc32 q) (exd ++ map (fun x => x + 1) exd ++ map (fun x => x - 1) exd) = true.
Proof. vm_compute. reflexivity. Qed.

Print Assumptions ex_contract_double.
Print Assumptions ex_contract_float.

(* DynCore.v — main theorems about the DynamicPGMIndex model (DynModel.v):
   C15 (LSM invariants) and C05 (refinement of the ordered map of DynSpec.v).
   Proofs live in DynCoreLemmas / DynCoreInv / DynCoreRefine / DynCoreQuery / DynCoreTotal / DynCoreLB. *)
From Coq Require Import ZArith List Bool Lia ZifyBool.
Require Import Base GenLeaf DynModel DynSpec DynCoreLemmas DynCoreInv DynCoreRefine DynCoreQuery DynCoreTotal DynCoreLB.
Local Open Scope Z_scope.

Section Main.
Context {P : Type} (ops : pgmops P) (kmax : Z).
Hypothesis Hc : pgm_contract ops kmax.
(* Side condition not in pgm_contract, forced by lp_reset: a merge that cancels every item against a
   tombstone (reachable: erase a key twice, flush, ...) leaves the target level empty and rebuilds its index
   with PGMType(begin, begin); lsm_props wants that index to be "the" empty index.  In C++ the two
   constructors yield identical objects; IndexModel.build returns mkIndex 0 0 [] [] = pg_empty as well. *)
Hypothesis Hbuild0 : pg_build ops [] = Ok (pg_empty ops).
Notation dynP := (@dyn P).

Let Hempty := Hempty_of_build0 ops Hbuild0.

(* The inductive invariant: wf_state plus
   - d_kmax d = kmax, 1 <= log2(base) (level capacities grow geometrically),
   - buffer_max = sum_{j<=min_level} max_size j  (capacity arithmetic of find_target),
   - |pgms| = max 0 (used - min_index_level)     (pgm(i) exists exactly for the used indexed levels),
   - levels <> [], used <= 255, min_index_level <= 255.
   wf_state alone is not inductive: nothing in it relates buffer_max to the level capacities, so a
   wf_state with an oversized buffer overflows max_size(target) at the next merge. *)
Definition Inv := DynCoreInv.Inv ops kmax.

Theorem Inv_wf : forall d, Inv d -> wf_state ops d.
Proof. intros d H. apply H. Qed.
Theorem Inv_lsm : forall d, Inv d -> lsm_props ops d.
Proof. intros d H. apply H. Qed.

(* ---------------- C15 ---------------- *)
(* ctor_ok base bl il := 0 <= bl <= 31 /\ 0 <= il <= 255 /\ base < 2^64  (necessary: see ctor_bad_* below) *)
Theorem C15_ctor : forall tomb base bl il d, ctor_ok base bl il ->
  dyn_ctor tomb kmax base bl il = Ok d -> wf_state ops d.
Proof. intros. apply Inv_wf. eapply ctor_Inv; eauto. Qed.

(* bulk_ok := ctor_ok /\ |pairs| < 2^64 *)
Theorem C15_bulk : forall tomb pairs base bl il d, bulk_ok base bl il pairs ->
  dyn_bulk ops tomb kmax pairs base bl il = Ok d -> Forall (fun p => fst p < kmax) pairs -> wf_state ops d.
Proof. intros. apply Inv_wf. eapply bulk_Inv; eauto. Qed.

(* size_ok d := d_used d < 255 : opening a new level does not wrap the uint8_t used_levels *)
Theorem C15_insert : forall d k v d', Inv d -> size_ok d -> k < kmax ->
  insert ops d (mkItem k v) = Ok d' -> Inv d'.
Proof. intros d k v d' HI Hs Hk H. eapply (insert_Inv ops kmax Hempty); eauto; cbn; auto. Qed.

Theorem C15_insert_wf : forall d k v d', Inv d -> size_ok d -> d_kmax d = kmax -> k < kmax ->
  insert ops d (mkItem k v) = Ok d' -> wf_state ops d'.
Proof. intros d k v d' HI Hs _ Hk H. apply Inv_wf. eapply C15_insert; eauto. Qed.

(* guarded histories: hist + (constructor arguments in range, keys of all operations < kmax, size_ok before
   each update); ghist_hist shows they are histories in the sense of DynSpec *)
Definition ghist := DynCoreRefine.ghist ops kmax.

Theorem ghist_is_hist : forall d m, ghist d m -> hist ops d m.
Proof. apply ghist_hist. Qed.

Theorem C15_hist : forall d m, ghist d m -> wf_state ops d /\ lsm_props ops d.
Proof.
  intros d m H. pose proof (ghist_Inv ops kmax Hempty d m H) as HI. split; [apply Inv_wf|apply Inv_lsm]; auto.
Qed.

(* ---------------- C05: refinement ---------------- *)
Theorem insert_refines : forall d k v d', Inv d -> size_ok d ->
  insert_or_assign ops d k v = Ok d' ->
  forall q, abs d' q = if q =? k then Some v else abs d q.
Proof. intros. eapply DynCoreRefine.insert_refines; eauto. Qed.

Theorem erase_refines : forall d k d', Inv d -> size_ok d ->
  erase ops d k = Ok d' ->
  forall q, abs d' q = if q =? k then None else abs d q.
Proof. intros. eapply DynCoreRefine.erase_refines; eauto. Qed.

Theorem bulk_refines : forall tomb pairs base bl il d,
  dyn_bulk ops tomb kmax pairs base bl il = Ok d -> represents d (am_bulk pairs).
Proof. intros. eapply DynCoreRefine.bulk_refines; eauto. Qed.

Theorem hist_represents : forall d m, ghist d m -> represents d m.
Proof. intros d m H. apply (ghist_represents ops kmax Hempty d m H). Qed.

(* sizes_ok d := d_used d * log2(base) <= 63: every level size fits size_t, so the 70-step binary search of
   the model cannot run out of fuel.  Necessary for totality only (Inv does not bound level sizes). *)
Theorem find_spec : forall d q, Inv d -> sizes_ok d -> q < kmax ->
  exists r, dfind ops d q = Ok r /\ obs r = option_map (fun v => (q, v)) (abs d q).
Proof. intros. eapply DynCoreQuery.find_spec; eauto. Qed.

Theorem count_spec : forall d q, Inv d -> sizes_ok d -> q < kmax ->
  count ops d q = Ok (match abs d q with Some _ => 1 | None => 0 end).
Proof. intros. eapply DynCoreQuery.count_spec; eauto. Qed.

(* operations never fail on valid input *)
Theorem insert_total : forall d k v, Inv d -> size_ok d -> sizes_ok d -> k < kmax ->
  d_tomb d <> Some v -> exists d', insert_or_assign ops d k v = Ok d'.
Proof. intros. eapply DynCoreTotal.insert_total; eauto. Qed.

Theorem erase_total : forall d k, Inv d -> size_ok d -> sizes_ok d -> k < kmax ->
  exists d', erase ops d k = Ok d'.
Proof. intros. eapply DynCoreTotal.erase_total; eauto. Qed.

Theorem C05_find : forall d m q, ghist d m -> sizes_ok d -> q < kmax ->
  exists r, dfind ops d q = Ok r /\ obs r = option_map (fun v => (q, v)) (am_find q m).
Proof.
  intros d m q H Hs Hq. pose proof (ghist_Inv ops kmax Hempty d m H) as HI.
  destruct (find_spec d q HI Hs Hq) as [r [H1 H2]]. exists r. split; auto.
  rewrite H2, (hist_represents d m H q). reflexivity.
Qed.

Theorem C05_count : forall d m q, ghist d m -> sizes_ok d -> q < kmax ->
  count ops d q = Ok (match am_find q m with Some _ => 1 | None => 0 end).
Proof.
  intros d m q H Hs Hq. pose proof (ghist_Inv ops kmax Hempty d m H) as HI.
  rewrite (count_spec d q HI Hs Hq), (hist_represents d m H q). reflexivity.
Qed.

(* amsrt m: the abstract map has strictly increasing keys (holds for every map of a history) *)
Theorem lower_bound_spec : forall d m q, Inv d -> sizes_ok d -> represents d m -> amsrt m -> q < kmax ->
  exists r, lower_bound ops d q = Ok r /\ obs r = am_lower_bound q m.
Proof. intros. eapply DynCoreLB.lower_bound_spec; eauto. Qed.

Theorem C05_lower_bound : forall d m q, ghist d m -> sizes_ok d -> q < kmax ->
  exists r, lower_bound ops d q = Ok r /\ obs r = am_lower_bound q m.
Proof.
  intros d m q H Hs Hq. pose proof (ghist_Inv ops kmax Hempty d m H) as HI.
  destruct (ghist_represents ops kmax Hempty d m H) as [Hr Hm].
  eapply lower_bound_spec; eauto.
Qed.

End Main.

(* ---------------- non-vacuity: a concrete reachable state ---------------- *)
Definition tops : pgmops (list Z) :=
  mkOps (list Z) (fun keys => Ok keys) [] (fun keys _ => Ok (0, zlen keys)).

Lemma lb_range : forall l q, 0 <= lb l q <= zlen l.
Proof.
  unfold zlen. induction l as [|x l IH]; intros q; cbn [lb length]; [lia|].
  specialize (IH q). destruct (x <? q); lia.
Qed.
Lemma lb_in_lt : forall l q, In q l -> lb l q < zlen l.
Proof.
  unfold zlen. induction l as [|x l IH]; intros q Hin; [destruct Hin|].
  cbn [lb length]. destruct (x <? q) eqn:E.
  - destruct Hin as [->|Hin]; [lia|]. specialize (IH q Hin). lia.
  - lia.
Qed.

Lemma tops_contract : forall kmax, pgm_contract tops kmax.
Proof.
  intros kmax. constructor.
  - intros keys _ _ _. exists keys. reflexivity.
  - intros keys p q Hb _ _ _. cbn in Hb. inversion Hb; subst p. exists 0, (zlen keys).
    pose proof (lb_range keys q). cbn. repeat split; try lia. apply lb_in_lt.
Qed.
Lemma tops_build0 : pg_build tops [] = Ok (pg_empty tops).
Proof. reflexivity. Qed.

Definition get (r : res (@dyn (list Z))) : @dyn (list Z) :=
  match r with Ok d => d | Err _ => mkDyn 0 0 0 0 0 [] [] None 0 end.
(* base 2, buffer_level 1 (buffer_max = 3), index_level 2; tombstone value 0; keys < 1000 *)
Definition ex0 := get (dyn_ctor (Some 0) 1000 2 1 2).
Definition ex1 := get (insert_or_assign tops ex0 10 100).
Definition ex2 := get (insert_or_assign tops ex1 20 200).
Definition ex3 := get (insert_or_assign tops ex2 30 300).
Definition ex4 := get (insert_or_assign tops ex3 40 400).   (* buffer full: merge into new level 2 *)
Definition ex5 := get (erase tops ex4 20).
Definition ex6 := get (insert_or_assign tops ex5 10 111).
Definition exm : amap := am_insert 10 111 (am_erase 20 (am_insert 40 400 (am_insert 30 300 (am_insert 20 200 (am_insert 10 100 []))))).

Example ex_reachable :
  ghist tops 1000 ex6 exm /\ size_ok ex6 /\ sizes_ok ex6 /\
  level ex6 2 = Ok [mkItem 10 (Some 100); mkItem 20 (Some 200); mkItem 30 (Some 300); mkItem 40 (Some 400)] /\
  level ex6 1 = Ok [mkItem 10 (Some 111); mkItem 20 None] /\
  pgm ex6 2 = Ok [10; 20; 30; 40] /\ d_used ex6 = 3.
Proof.
  assert (H0 : ghist tops 1000 ex0 []).
  { eapply gh_ctor with (tomb := Some 0) (base := 2) (bl := 1) (il := 2); [|reflexivity].
    unfold ctor_ok. cbn. lia. }
  assert (H1 : ghist tops 1000 ex1 (am_insert 10 100 [])).
  { eapply gh_ins; [exact H0| | |reflexivity]; [vm_compute; reflexivity|lia]. }
  assert (H2 : ghist tops 1000 ex2 (am_insert 20 200 (am_insert 10 100 []))).
  { eapply gh_ins; [exact H1| | |reflexivity]; [vm_compute; reflexivity|lia]. }
  assert (H3 : ghist tops 1000 ex3 (am_insert 30 300 (am_insert 20 200 (am_insert 10 100 [])))).
  { eapply gh_ins; [exact H2| | |reflexivity]; [vm_compute; reflexivity|lia]. }
  assert (H4 : ghist tops 1000 ex4 (am_insert 40 400 (am_insert 30 300 (am_insert 20 200 (am_insert 10 100 []))))).
  { eapply gh_ins; [exact H3| | |reflexivity]; [vm_compute; reflexivity|lia]. }
  assert (H5 : ghist tops 1000 ex5 (am_erase 20 (am_insert 40 400 (am_insert 30 300 (am_insert 20 200 (am_insert 10 100 [])))))).
  { eapply gh_del; [exact H4| | |reflexivity]; [vm_compute; reflexivity|lia]. }
  assert (H6 : ghist tops 1000 ex6 exm).
  { eapply gh_ins; [exact H5| | |reflexivity]; [vm_compute; reflexivity|lia]. }
  repeat split; try exact H6; vm_compute; try reflexivity; discriminate.
Qed.

(* the theorems apply to it: the model answers like the map, and the next operation cannot fail *)
Example ex_find : exists r, dfind tops ex6 30 = Ok r /\ obs r = Some (30, 300).
Proof.
  destruct ex_reachable as [H [_ [Hs _]]].
  exact (C05_find tops 1000 (tops_contract 1000) tops_build0 ex6 exm 30 H Hs ltac:(lia)).
Qed.
Example ex_lb : exists r, lower_bound tops ex6 15 = Ok r /\ obs r = Some (30, 300).
Proof.
  destruct ex_reachable as [H [_ [Hs _]]].
  exact (C05_lower_bound tops 1000 (tops_contract 1000) tops_build0 ex6 exm 15 H Hs ltac:(lia)).
Qed.
Example ex_next : exists d', insert_or_assign tops ex6 50 500 = Ok d'.
Proof.
  destruct ex_reachable as [H [Hz [Hs _]]].
  apply (insert_total tops 1000 (tops_contract 1000) tops_build0); auto; try lia.
  - exact (ghist_Inv tops 1000 (Hempty_of_build0 tops tops_build0) ex6 exm H).
  - vm_compute. discriminate.
Qed.

(* ---------------- why the side conditions are there (model findings) ---------------- *)
(* buffer_level = 255: min_level + 1 wraps in uint8_t, min_index_level = 24 < min_level; wf_levels_order fails *)
Example ctor_bad_bl255 : exists d, @dyn_ctor (list Z) None 1000 2 255 0 = Ok d /\
  d_min_index_level d < d_min_level d /\ ~ wf_state tops d.
Proof.
  eexists. split; [reflexivity|]. split; [vm_compute; reflexivity|].
  intros [_ _ _ [_ H]]. vm_compute in H. discriminate.
Qed.
(* buffer_level = 32: the model's constructor succeeds with zero levels (C++: levels.resize(0) followed by
   level(min_level).reserve(..) on an empty vector); the first insert then reads out of bounds *)
Example ctor_bad_bl32 : exists d, @dyn_ctor (list Z) None 1000 2 32 0 = Ok d /\ d_levels d = [] /\
  insert tops d (mkItem 1 (Some 1)) = Err OutOfBounds.
Proof. eexists. split; [reflexivity|]. split; reflexivity. Qed.

(* Hbuild0 is necessary: an index type that satisfies pgm_contract but builds a non-default object over the
   empty range falsifies lp_reset in a reachable state.  Base 4, buffer_level 1, index_level 2: bulk-load 17
   keys (level 3), erase 1..12 (tombstones reach level 2), erase 13..17 (buffer), erase 1 again: buffer +
   level 2 merge into level 3 = used_levels - 1, every item meets its tombstone, level 3 becomes empty and its
   index is rebuilt over the empty range. *)
Definition ops2 : pgmops Z :=
  mkOps Z (fun keys => Ok (1 + zlen keys)) 0 (fun p _ => Ok (0, p - 1)).
Lemma ops2_contract : forall kmax, pgm_contract ops2 kmax.
Proof.
  intros kmax. constructor.
  - intros keys _ _ _. eexists. reflexivity.
  - intros keys p q Hb _ _ _. cbn [pg_build ops2] in Hb. apply Ok_inj in Hb. subst p. exists 0, (zlen keys).
    pose proof (lb_range keys q). cbn [pg_search ops2]. replace (1 + zlen keys - 1) with (zlen keys) by lia.
    repeat split; try lia; try reflexivity. apply lb_in_lt.
Qed.

Fixpoint erase_all {P} (o : pgmops P) (kmax : Z) (d : @dyn P) (m : amap) (ks : list Z) : option (@dyn P * amap) :=
  match ks with
  | [] => Some (d, m)
  | k :: t => if (d_used d <? 255) && (k <? kmax)
              then match erase o d k with Ok d' => erase_all o kmax d' (am_erase k m) t | Err _ => None end
              else None
  end.
Lemma erase_all_ghist : forall P (o : pgmops P) kmax ks d m d' m',
  ghist o kmax d m -> erase_all o kmax d m ks = Some (d', m') -> ghist o kmax d' m'.
Proof.
  induction ks as [|k t IH]; intros d m d' m' H E; cbn [erase_all] in E.
  - inversion E; subst; auto.
  - destruct ((d_used d <? 255) && (k <? kmax)) eqn:G; [|discriminate].
    destruct (erase o d k) as [d1|] eqn:E1; [|discriminate].
    eapply IH; [|exact E]. eapply gh_del; eauto; unfold size_ok; lia.
Qed.

Definition bad_pairs : list (Z * Z) := map (fun k => (k, k)) (zseq 1 17).
Definition bad_erases : list Z := zseq 1 12 ++ zseq 13 5 ++ [1].
Example Hbuild0_necessary : exists d m,
  ghist ops2 1000 d m /\ level d 3 = Ok [] /\ pgm d 3 = Ok 1 /\ ~ lsm_props ops2 d.
Proof.
  destruct (dyn_bulk ops2 None 1000 bad_pairs 4 1 2) as [d0|] eqn:E0; [|vm_compute in E0; discriminate].
  destruct (erase_all ops2 1000 d0 (am_bulk bad_pairs) bad_erases) as [[d m]|] eqn:E1;
    [|vm_compute in E0; inversion E0; subst d0; vm_compute in E1; discriminate].
  exists d, m.
  assert (H0 : ghist ops2 1000 d0 (am_bulk bad_pairs)).
  { eapply gh_bulk; [| |exact E0].
    - unfold bulk_ok, ctor_ok. vm_compute. intuition discriminate.
    - unfold bad_pairs. apply Forall_forall. intros p Hp. apply in_map_iff in Hp.
      destruct Hp as [k [<- Hk]]. apply zseq_in in Hk. cbn. lia. }
  pose proof (erase_all_ghist _ ops2 1000 bad_erases d0 _ d m H0 E1) as H1.
  vm_compute in E0. inversion E0; subst d0. vm_compute in E1. inversion E1; subst d m.
  split; [exact H1|]. split; [reflexivity|]. split; [reflexivity|].
  intros [_ _ _ _ _ Lres]. specialize (Lres 3 [] 1 eq_refl eq_refl eq_refl). discriminate.
Qed.

Print Assumptions C15_ctor.
Print Assumptions C15_bulk.
Print Assumptions C15_insert.
Print Assumptions C15_hist.
Print Assumptions insert_refines.
Print Assumptions erase_refines.
Print Assumptions bulk_refines.
Print Assumptions hist_represents.
Print Assumptions find_spec.
Print Assumptions count_spec.
Print Assumptions insert_total.
Print Assumptions erase_total.
Print Assumptions C05_find.
Print Assumptions C05_count.
Print Assumptions lower_bound_spec.
Print Assumptions C05_lower_bound.
Print Assumptions ex_reachable.
Print Assumptions ex_find.
Print Assumptions ex_lb.
Print Assumptions ex_next.
Print Assumptions Hbuild0_necessary.

(* VariantsModel.v — include/pgm/pgm_index_variants.hpp: BucketingPGMIndex and EliasFanoPGMIndex
   (CompressedPGMIndex is in CompressedModel.v, MappedPGMIndex in MappedModel.v). *)
Require Import Base Fp PlaModel GenLeaf IndexModel.
Local Open Scope Z_scope.

(* ================================================================================================
   BucketingPGMIndex<K, Epsilon, TopLevelSize, TopLevelBitSize, Floating>   (K unsigned)
   ================================================================================================ *)
Record bcfg := mkBcfg {
  b_cfg : cfg;                (* key type, Epsilon, Floating; EpsilonRecursive = 0 *)
  b_tls : Z;                  (* TopLevelSize *)
  b_tlbs : Z                  (* TopLevelBitSize; 0 = dynamic *)
}.

Record bucketing := mkBucketing {
  bk_n : Z; bk_first : Z; bk_last : Z;
  bk_segments : list segment;
  bk_top : list Z;
  bk_step : Z
}.

Definition pow_two (x : Z) : bool := Z.land x (x - 1) =? 0.
Definition top_shift (bc : bcfg) : Z := kbits (c_kt (b_cfg bc)) - BIT_WIDTH (b_tls bc) + 1.

(* fill loop: for i = 1 .. actual-2 *)
Fixpoint fill_top (kt : ktype) (segkeys : list Z) (first_key step : Z) (is_ : list Z) (k : Z) (width : Z) (acc : list Z)
  : list Z :=
  match is_ with
  | [] => rev acc
  | i :: rest =>
      let prod := wrapK kt i * step in
      let upper_bound := if prod >? kmax kt then kmax kt else prod in          (* __builtin_mul_overflow *)
      (* while (k < segments.size() && (segments[k].key - first_key) < upper_bound) ++k; *)
      let fix adv (fuel : nat) (k : Z) : Z :=
        match fuel with
        | O => k
        | S f => if (k <? zlen segkeys) && (nth (Z.to_nat k) segkeys 0 - first_key <? upper_bound) then adv f (k + 1) else k
        end in
      let k' := adv (length segkeys) k in
      fill_top kt segkeys first_key step rest k' width (wrapU width k' :: acc)
  end.

Definition build_top_level (bc : bcfg) (segs : list segment) (first_key last_key : Z) : res (list Z * Z) :=
  let kt := c_kt (b_cfg bc) in
  let tls := b_tls bc in
  do sa <-
    (if pow_two tls then
       let sh := top_shift bc in
       (* K(1) << sh : for 8/16-bit K the shift is done in int and converted back; for wider K a count >= width is UB *)
       if (sh <? 0) || ((kbits kt >=? 32) && (sh >=? kbits kt)) || (sh >=? 32) && (kbits kt <? 32) then Err UBShift
       else
         let step := wrapK kt (Z.shiftl 1 sh) in
         if step =? 0 then Err UBDivZero
         else Ok (step, CEIL_INT_DIV (last_key - first_key) step + 2)
     else Ok (Z.max (wrapK kt (CEIL_INT_DIV (last_key - first_key) tls)) 1, tls + 2));
  let '(step, actual) := sa in
  let log_segments := BIT_WIDTH (zlen segs) in
  do width <-
    (if b_tlbs bc =? 0 then Ok log_segments
     else if b_tlbs bc <? log_segments then Err ThrowInvalidArgument else Ok (b_tlbs bc));
  let segkeys := map sg_key segs in
  let mid := fill_top kt segkeys first_key step (zseq 1 (Z.to_nat (actual - 2))) 1 width [] in
  (* top_level[0] = 0, ..., top_level[actual-1] = segments.size() *)
  Ok (0 :: mid ++ [wrapU width (zlen segs)], step).

Definition bucketing_build (bc : bcfg) (data : list Z) : res bucketing :=
  let n := zlen data in
  if n =? 0 then Ok (mkBucketing 0 0 0 [] [] 0) else
  let c0 := b_cfg bc in
  let c := mkCfg (c_kt c0) (c_eps c0) 0 (c_fdouble c0) (c_par c0) (c_avx512 c0) in
  do ix <- build c data;
  let first_key := hd 0 data in
  let last_key := last_z data in
  do t <- build_top_level bc (ix_segments ix) first_key last_key;
  Ok (mkBucketing n first_key last_key (ix_segments ix) (fst t) (snd t)).

Definition bucketing_segment_for_key (bc : bcfg) (b : bucketing) (key : Z) : res Z :=
  let kt := c_kt (b_cfg bc) in
  do j <-
    (if pow_two (b_tls bc) then Ok (Z.shiftr (wrapK kt (key - bk_first b)) (top_shift bc))
     else if bk_step b =? 0 then Err UBDivZero else Ok (Z.quot (wrapK kt (key - bk_first b)) (bk_step b)));
  do first <- nth_res (bk_top b) j;
  do last <- nth_res (bk_top b) (j + 1);
  if (first >? last) || (last >? zlen (bk_segments b)) then Err OutOfBounds else
  Ok (ub_range (map sg_key (bk_segments b)) first last key - 1).

Definition bucketing_search (bc : bcfg) (b : bucketing) (key : Z) : res approx :=
  if key <? bk_first b then Ok (mkApprox 0 0 0)
  else if key >? bk_last b then Ok (mkApprox (bk_n b) (bk_n b) (bk_n b))
  else
    do it <- bucketing_segment_for_key bc b key;
    do s <- nth_res (bk_segments b) it;
    do nx <- nth_res (bk_segments b) (it + 1);
    let pos := Z.min (seg_eval (b_cfg bc) s key) (sg_icpt nx) in
    Ok (mkApprox pos (PGM_SUB_EPS pos (c_eps (b_cfg bc))) (PGM_ADD_EPS pos (c_eps (b_cfg bc)) (bk_n b))).

(* ================================================================================================
   EliasFanoPGMIndex<K, Epsilon, Floating>   (K unsigned)
   ================================================================================================ *)
Record efseg := mkEfseg { es_slope : f64; es_icpt : Z }.       (* Floating slope (kept as double), int32 intercept *)

Record ef := mkEf {
  ef_size : Z;              (* sd_vector::size() = last stored value + 1 *)
  ef_wl : Z;
  ef_low : list Z;
  ef_high : list bool
}.

Record efindex := mkEfindex {
  ei_n : Z; ei_first : Z;
  ei_segments : list efseg;
  ei_ef : ef
}.

(* sd_vector(begin, end) for strictly increasing values and the low width wl chosen by get_params
   (wl is an input: get_params uses double log2, which is not modelled; every theorem holds for all wl) *)
Fixpoint ef_high_build (wl : Z) (vals : list Z) (last_high : Z) : list bool :=
  match vals with
  | [] => []
  | v :: rest =>
      let cur_high := Z.shiftr v wl in
      repeat false (Z.to_nat (cur_high - last_high)) ++ true :: ef_high_build wl rest cur_high
  end.
Definition get_buckets (universe low_width : Z) : Z :=
  Z.shiftr universe low_width + (if Z.land universe (2 ^ low_width - 1) =? 0 then 0 else 1).
Definition ef_build (wl : Z) (vals : list Z) : ef :=
  match vals with
  | [] => mkEf 0 0 [] []
  | _ =>
      let size := last_z vals + 1 in
      let hi := ef_high_build wl vals 0 in
      let total := zlen vals + get_buckets size wl in
      mkEf size wl (map (fun v => Z.land v (2 ^ wl - 1)) vals)
           (hi ++ repeat false (Z.to_nat (total - zlen hi)))
  end.

(* select: position of the j-th (1-based) bit equal to b; beyond the population = UB (sdsl assert) *)
Fixpoint select_from (b : bool) (l : list bool) (j : Z) (pos : Z) : res Z :=
  match l with
  | [] => Err UBSelect
  | x :: t => if Bool.eqb x b then (if j =? 1 then Ok pos else select_from b t (j - 1) (pos + 1))
              else select_from b t j (pos + 1)
  end.
Definition select1 (e : ef) (j : Z) : res Z := if j <=? 0 then Err UBSelect else select_from true (ef_high e) j 0.
Definition select0 (e : ef) (j : Z) : res Z := if j <=? 0 then Err UBSelect else select_from false (ef_high e) j 0.

(* bits::prev: largest position <= idx holding a one *)
Fixpoint prev_one (l : list bool) (idx : Z) (pos : Z) (best : option Z) : option Z :=
  match l with
  | [] => best
  | x :: t => if pos >? idx then best else prev_one t idx (pos + 1) (if x then Some pos else best)
  end.

Fixpoint ef_bsearch (fuel : nat) (low : list Z) (rank_lo count val_low : Z) : res Z :=
  match fuel with
  | O => Err OutOfFuel
  | S f =>
      if count >? 0 then
        let step := count / 2 in
        let mid := rank_lo + step in
        do lm <- nth_res low mid;
        if lm <? val_low then ef_bsearch f low (mid + 1) (count - (step + 1)) val_low
        else ef_bsearch f low rank_lo step val_low
      else Ok rank_lo
  end.

(* EliasFanoPGMIndex::pred(i): (index of the segment, its key) *)
Definition ef_pred (e : ef) (i : Z) : res (Z * Z) :=
  let wl := ef_wl e in
  if i >=? ef_size e - 1 then
    let j := zlen (ef_low e) in
    do lj <- nth_res (ef_low e) (j - 1);
    do s1 <- select1 e j;
    Ok (j - 1, lj + Z.shiftl (s1 + 1 - j) wl)
  else
    let i := i + 1 in
    let high_val := Z.shiftr i wl in
    do sel_high <- select0 e (high_val + 1);
    let rank_hi := sel_high - high_val in
    if rank_hi =? 0 then
      do l0 <- nth_res (ef_low e) 0; Ok (0, l0 + Z.shiftl high_val wl)
    else
      do rank_lo0 <- (if high_val =? 0 then Ok 0 else do s <- select0 e high_val; Ok (s - high_val + 1));
      let val_low := Z.land i (2 ^ wl - 1) in
      do rank_lo1 <- ef_bsearch 70 (ef_low e) rank_lo0 (rank_hi - rank_lo0) val_low;
      let rank_lo := rank_lo1 - 1 in
      let sel_high' := sel_high - (rank_hi - rank_lo) in
      do hb <- nth_res (ef_high e) sel_high';
      do h <- (if hb then Ok high_val
               else match prev_one (ef_high e) sel_high' 0 None with
                    | Some p => Ok (p - rank_lo)
                    | None => Err OutOfBounds
                    end);
      do lr <- nth_res (ef_low e) rank_lo;
      Ok (rank_lo, lr + Z.shiftl h wl).

Definition ef_index_build (c : cfg) (wl : Z) (data : list Z) : res efindex :=
  let n := zlen data in
  if n =? 0 then Ok (mkEfindex 0 0 [] (mkEf 0 0 [] [])) else
  let c0 := mkCfg (c_kt c) (c_eps c) 0 (c_fdouble c) (c_par c) (c_avx512 c) in
  do ix <- build c0 data;
  let first_key := hd 0 data in
  let segs := ix_segments ix in
  let sdata := map (fun s => mkEfseg (sg_slope s) (wrapS 32 (sg_icpt s))) segs in
  let rebased := map (fun s => wrapK (c_kt c) (sg_key s - first_key)) (removelast segs) in
  Ok (mkEfindex n first_key sdata (ef_build wl rebased)).

(* SegmentData::operator()(origin, k): int64_t(slope * (k - origin)) + intercept, in Floating arithmetic *)
Definition efseg_eval (c : cfg) (s : efseg) (origin k : Z) : Z :=
  let kt := c_kt c in
  let d := if kbits kt >=? 32 then wrapK kt (k - origin) else k - origin in
  let far := fun {p e} (x : Flocq.IEEE754.BinarySingleNaN.binary_float p e) =>
    match truncZ x with Some z => z >=? 2 ^ 62 | None => true end in
  if c_fdouble c then
    let p := mul64 (es_slope s) (ofZ64 d) in
    if far p then 2 ^ 63 - 1 else
    let pos := wrapS 64 (cvtt_i64 p + es_icpt s) in if pos >? 0 then pos else 0
  else
    let p := mul32 (f64_to_f32 (es_slope s)) (ofZ32 d) in
    if far p then 2 ^ 63 - 1 else
    let pos := wrapS 64 (cvtt_i64 p + es_icpt s) in if pos >? 0 then pos else 0.

Definition ef_search (c : cfg) (x : efindex) (key : Z) : res approx :=
  let kt := c_kt c in
  let k := Z.max (ei_first x) key in
  do pr <- ef_pred (ei_ef x) (wrapK kt (k - ei_first x));
  let '(r, origin) := pr in
  do s <- nth_res (ei_segments x) r;
  do nx <- nth_res (ei_segments x) (r + 1);
  let pos := Z.min (efseg_eval c s (wrapK kt (origin + ei_first x)) k) (wrapU 64 (es_icpt nx)) in
  Ok (mkApprox pos (PGM_SUB_EPS pos (c_eps c)) (PGM_ADD_EPS pos (c_eps c) (ei_n x))).

(* the values an Elias-Fano structure stores, decoded from (low, high): value_t = low_t + ((select1(t+1) - t) << wl) *)
Fixpoint ef_decode (wl : Z) (low : list Z) (high : list bool) (zeros : Z) : list Z :=
  match high with
  | [] => []
  | false :: h => ef_decode wl low h (zeros + 1)
  | true :: h => match low with
                 | [] => []
                 | l :: ls => (l + Z.shiftl zeros wl) :: ef_decode wl ls h zeros
                 end
  end.
Definition ef_values (e : ef) : list Z := ef_decode (ef_wl e) (ef_low e) (ef_high e) 0.

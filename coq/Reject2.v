(* Reject2.v — C20, gaps closed:
   (a) DynamicPGMIndex bulk-load constructor: a descent ANYWHERE in the range (also between the first and
       the second pair) is rejected; the reserved mapped value ANYWHERE (in a pair that is the first of its
       key group — the only pairs for which an Item is constructed) is rejected.  Both exceptions of the
       real constructor are std::invalid_argument, so whichever offending position comes first the
       outcome is the same `Err ThrowInvalidArgument`: no side condition about the other rule is needed.
       Converse (dyn_bulk_invalid_iff): nothing else is rejected, as long as the level index builder
       itself does not report an invalid argument.
   (b) the static rule in the property's wording: sorted + in type + CONTAINS the maximum of the key type
       => invalid_argument, for PGMIndex::build, BucketingPGMIndex, EliasFanoPGMIndex, MappedPGMIndex
       (range constructor), CompressedPGMIndex (new, with the converse), and what
       MultidimensionalPGMIndex does with a point whose code is the reserved value. *)
Require Import Base Fp PlaModel GenLeaf IndexModel IndexProofs DynModel DynSpec MultiModel VariantsModel MappedModel
  CompressedModel Reject IdxChain.
From Coq Require Import ZifyBool.
Local Open Scope Z_scope.

(* ================= (a) DynamicPGMIndex(first, last, base, ...) ================= *)
Section DynReject2.
Context {P : Type} (ops : pgmops P).

Theorem dyn_bulk_rejects_unsorted_anywhere tomb kmax base bl il pre k1 v1 k2 v2 post d0 :
  @dyn_ctor P tomb kmax base bl il = Ok d0 -> k2 < k1 ->
  dyn_bulk ops tomb kmax (pre ++ (k1, v1) :: (k2, v2) :: post) base bl il = Err ThrowInvalidArgument.
Proof.
  intros Hc Hlt. destruct pre as [|[k0 v0] pre].
  - cbn [app]. unfold dyn_bulk. rewrite Hc. cbn [bind dedup_sorted].
    assert (k2 <? k1 = true) as -> by lia. reflexivity.
  - cbn [app]. eapply dyn_bulk_rejects_unsorted; eassumption.
Qed.

(* the item of a pair whose key differs from every earlier key is kept by the de-duplication *)
Lemma dedup_sorted_keeps pre : forall prev k v post r,
  k <> prev -> (forall p, In p pre -> fst p <> k) ->
  dedup_sorted prev (pre ++ (k, v) :: post) = Ok r -> In (mkItem k (Some v)) r.
Proof.
  induction pre as [|[k' v'] pre IH]; intros prev k v post r Hk Hpre H; cbn [app dedup_sorted] in H.
  - destruct (k <? prev); [discriminate|].
    assert (k =? prev = false) as E by lia. rewrite E in H.
    destruct (dedup_sorted k post) as [r'|e]; cbn [bind] in H; [|discriminate].
    injection H as <-. left. reflexivity.
  - assert (Hk' : k' <> k) by (apply (Hpre (k', v')); left; reflexivity).
    assert (Hpre' : forall p, In p pre -> fst p <> k) by (intros p Hp; apply Hpre; right; exact Hp).
    destruct (k' <? prev); [discriminate|].
    destruct (k' =? prev).
    + eapply IH; eassumption.
    + destruct (dedup_sorted k' (pre ++ (k, v) :: post)) as [r'|e] eqn:E; cbn [bind] in H; [|discriminate].
      injection H as <-. right. eapply (IH k'); [lia|exact Hpre'|exact E].
Qed.

Lemma check_values_in t items k : In (mkItem k (Some t)) items -> check_values (Some t) items = true.
Proof.
  intros Hin. unfold check_values. apply existsb_exists. exists (mkItem k (Some t)).
  split; [exact Hin|]. cbn [it_val]. apply Z.eqb_refl.
Qed.

(* the reserved mapped value anywhere in the range, in a pair whose key did not occur before it *)
Theorem dyn_bulk_rejects_reserved_value_anywhere t kmax base bl il pre k post d0 :
  @dyn_ctor P (Some t) kmax base bl il = Ok d0 ->
  (forall p, In p pre -> fst p <> k) ->
  dyn_bulk ops (Some t) kmax (pre ++ (k, t) :: post) base bl il = Err ThrowInvalidArgument.
Proof.
  intros Hc Hpre. unfold dyn_bulk. rewrite Hc. cbn [bind].
  destruct pre as [|[k0 v0] pre]; cbn [app].
  - destruct (dedup_sorted k post) as [r|e] eqn:E.
    + cbn [bind]. rewrite (check_values_in t _ k); [reflexivity|left; reflexivity].
    + destruct (dedup_sorted_total k post) as [E'|[r E']]; rewrite E' in E; [|discriminate].
      injection E as <-. reflexivity.
  - destruct (dedup_sorted k0 (pre ++ (k, t) :: post)) as [r|e] eqn:E.
    + cbn [bind]. rewrite (check_values_in t _ k); [reflexivity|]. right.
      eapply (dedup_sorted_keeps pre k0 k t post r); [|intros p Hp; apply Hpre; right; exact Hp|exact E].
      intros ->. apply (Hpre (k0, v0)); [left; reflexivity|reflexivity].
    + destruct (dedup_sorted_total k0 (pre ++ (k, t) :: post)) as [E'|[r E']]; rewrite E' in E; [|discriminate].
      injection E as <-. reflexivity.
Qed.
End DynReject2.

(* ---- converse: the constructor reports an invalid argument for nothing else ---- *)
Lemma dedup_sorted_err_iff l : forall prev,
  dedup_sorted prev l = Err ThrowInvalidArgument <-> sortedb (prev :: map fst l) = false.
Proof.
  induction l as [|[k v] t IH]; intros prev; cbn [dedup_sorted map fst].
  - cbn. split; discriminate.
  - change (sortedb (prev :: k :: map fst t)) with ((prev <=? k) && sortedb (k :: map fst t)).
    destruct (k <? prev) eqn:E1.
    + assert (prev <=? k = false) as -> by lia. cbn. tauto.
    + assert (prev <=? k = true) as -> by lia. cbn [andb].
      destruct (k =? prev) eqn:E2.
      * assert (k = prev) as -> by lia. apply IH.
      * rewrite <- IH. destruct (dedup_sorted k t) as [r|e]; cbn [bind]; split; intros H; try discriminate; exact H.
Qed.

Lemma dedup_sorted_origin l : forall prev r k v,
  dedup_sorted prev l = Ok r -> In (mkItem k (Some v)) r ->
  prev < k /\ exists pre post, l = pre ++ (k, v) :: post /\ forall p, In p pre -> fst p < k.
Proof.
  induction l as [|[k' v'] t IH]; intros prev r k v H Hin; cbn [dedup_sorted] in H.
  - injection H as <-. contradiction.
  - destruct (k' <? prev) eqn:E1; [discriminate|].
    destruct (k' =? prev) eqn:E2.
    + destruct (IH prev r k v H Hin) as (Hlt & pre & post & -> & Hpre). split; [exact Hlt|].
      exists ((k', v') :: pre), post. split; [reflexivity|].
      intros p [<-|Hp]; [cbn [fst]; lia|apply Hpre; exact Hp].
    + destruct (dedup_sorted k' t) as [r'|e] eqn:E; cbn [bind] in H; [|discriminate].
      injection H as <-. destruct Hin as [Hin|Hin].
      * injection Hin as <- <-. split; [lia|]. exists [], t. split; [reflexivity|]. intros p [].
      * destruct (IH k' r' k v E Hin) as (Hlt & pre & post & -> & Hpre). split; [lia|].
        exists ((k', v') :: pre), post. split; [reflexivity|].
        intros p [<-|Hp]; [cbn [fst]; lia|apply Hpre; exact Hp].
Qed.

Lemma dedup_sorted_keys l : forall prev r, dedup_sorted prev l = Ok r ->
  forall i, In i r -> In (it_key i) (map fst l).
Proof.
  induction l as [|[k v] t IH]; intros prev r H i Hi; cbn [dedup_sorted] in H.
  - injection H as <-. contradiction.
  - cbn [map fst]. destruct (k <? prev); [discriminate|]. destruct (k =? prev).
    + right. eapply IH; eassumption.
    + destruct (dedup_sorted k t) as [r'|e] eqn:E; cbn [bind] in H; [|discriminate]. injection H as <-.
      destruct Hi as [<-|Hi]; [left; reflexivity|right; eapply IH; eassumption].
Qed.

Lemma check_values_true tomb items : check_values tomb items = true ->
  exists t k, tomb = Some t /\ In (mkItem k (Some t)) items.
Proof.
  unfold check_values. destruct tomb as [t|]; [|discriminate]. intros H.
  apply existsb_exists in H. destruct H as ([k [v|]] & Hin & Hv); cbn [it_val] in Hv; [|discriminate].
  assert (v = t) as -> by lia. exists t, k. split; [reflexivity|exact Hin].
Qed.

Section DynIff.
Context {P : Type} (ops : pgmops P).

Lemma set_level_not_inv (d : @dyn P) i l : not_inv (set_level d i l).
Proof. unfold not_inv, set_level. destruct (_ || _); discriminate. Qed.
Lemma set_pgm_not_inv (d : @dyn P) i p : not_inv (set_pgm d i p).
Proof. unfold not_inv, set_pgm. destruct (_ || _); discriminate. Qed.

(* the complete decision rule of the bulk-load constructor (valid base): invalid_argument iff the keys
   are not sorted (non-decreasing; equal keys are allowed, the first of each group wins) or the reserved
   mapped value occurs in a pair whose key does not occur before it *)
Theorem dyn_bulk_invalid_iff tomb kmax base bl il pairs d0 :
  @dyn_ctor P tomb kmax base bl il = Ok d0 ->
  (forall keys, incl keys (map fst pairs) -> pg_build ops keys <> Err ThrowInvalidArgument) ->
  (dyn_bulk ops tomb kmax pairs base bl il = Err ThrowInvalidArgument <->
     sortedb (map fst pairs) = false \/
     exists t pre k post, tomb = Some t /\ pairs = pre ++ (k, t) :: post /\ forall p, In p pre -> fst p <> k).
Proof.
  intros Hc Hpg. split.
  - intros H. unfold dyn_bulk in H. rewrite Hc in H. cbn [bind] in H.
    destruct pairs as [|[k0 v0] tl]; [discriminate|].
    destruct (dedup_sorted k0 tl) as [rest|e] eqn:E.
    2:{ left. cbn [map fst]. apply dedup_sorted_err_iff.
        destruct (dedup_sorted_total k0 tl) as [E'|[r E']]; rewrite E' in E; [exact E'|discriminate]. }
    cbn [bind] in H.
    destruct (check_values tomb (mkItem k0 (Some v0) :: rest)) eqn:Ev.
    + right. destruct (check_values_true _ _ Ev) as (t & k & -> & [Hin|Hin]).
      * injection Hin as <- <-. exists v0, [], k0, tl. split; [reflexivity|split; [reflexivity|intros p []]].
      * destruct (dedup_sorted_origin tl k0 rest k t E Hin) as (Hlt & pre & post & -> & Hpre).
        exists t, ((k0, v0) :: pre), k, post. split; [reflexivity|split; [reflexivity|]].
        intros p [<-|Hp]; [cbn [fst]; lia|specialize (Hpre p Hp); lia].
    + exfalso. revert H. apply bind_not_inv; [apply set_level_not_inv|]. intros d2 _.
      destruct (has_pgm d2 _); [|discriminate].
      apply bind_not_inv; [|intros p _; apply set_pgm_not_inv]. apply Hpg.
      cbn [map it_key fst]. intros x [<-|Hx]; [left; reflexivity|right].
      apply in_map_iff in Hx. destruct Hx as (i & <- & Hi). exact (dedup_sorted_keys _ _ _ E i Hi).
  - intros [Hs|(t & pre & k & post & -> & -> & Hpre)].
    + unfold dyn_bulk. rewrite Hc. cbn [bind]. destruct pairs as [|[k0 v0] tl]; [discriminate|].
      cbn [map fst] in Hs. apply dedup_sorted_err_iff in Hs. rewrite Hs. reflexivity.
    + eapply dyn_bulk_rejects_reserved_value_anywhere; eassumption.
Qed.
End DynIff.

(* ================= (b) the static classes, in the property's wording ================= *)
Definition in_type (c : cfg) (data : list Z) : Prop := Forall (fun x => in_ktype (c_kt c) x = true) data.

(* sorted + every key in the key type + contains the maximum of the type => the last key is the maximum *)
Lemma contains_sentinel_last c data :
  sortedb data = true -> in_type c data -> In (sentinel c) data -> data <> [] /\ last_z data = sentinel c.
Proof.
  intros Hs Ht Hin. assert (Hne : data <> []) by (intros ->; contradiction). split; [exact Hne|].
  pose proof (sorted_le_last data (sentinel c) 0 Hs Hin) as Hle.
  unfold in_type in Ht. rewrite Forall_forall in Ht.
  assert (Hl : In (last_z data) data).
  { unfold last_z. destruct (exists_last Hne) as (l' & a & ->). rewrite last_last.
    apply in_or_app. right. left. reflexivity. }
  specialize (Ht _ Hl). unfold in_ktype, sentinel, last_z in *. lia.
Qed.

Lemma last_sentinel_contains c data : data <> [] -> last_z data = sentinel c -> In (sentinel c) data.
Proof.
  intros Hne <-. unfold last_z. destruct (exists_last Hne) as (l' & a & ->). rewrite last_last.
  apply in_or_app. right. left. reflexivity.
Qed.

Theorem build_rejects_contains c data :
  sortedb data = true -> in_type c data -> In (sentinel c) data -> build c data = Err ThrowInvalidArgument.
Proof. intros Hs Ht Hin. destruct (contains_sentinel_last c data Hs Ht Hin). apply build_rejects_reserved; assumption. Qed.

Theorem build_rejects_contains_iff c data :
  0 <= c_eps c -> 0 <= c_epsrec c -> sortedb data = true -> in_type c data ->
  (build c data = Err ThrowInvalidArgument <-> In (sentinel c) data).
Proof.
  intros He Hr Hs Ht. split.
  - intros H. destruct (build_rejects_only_reserved c data He Hr H). apply last_sentinel_contains; assumption.
  - apply build_rejects_contains; assumption.
Qed.

Corollary build_accepts_without_reserved c data :
  0 <= c_eps c -> 0 <= c_epsrec c -> ~ In (sentinel c) data -> build c data <> Err ThrowInvalidArgument.
Proof.
  intros He Hr Hn H. destruct (build_rejects_only_reserved c data He Hr H). apply Hn.
  apply last_sentinel_contains; assumption.
Qed.

Theorem bucketing_rejects_contains bc data :
  sortedb data = true -> in_type (b_cfg bc) data -> In (sentinel (b_cfg bc)) data ->
  bucketing_build bc data = Err ThrowInvalidArgument.
Proof. intros Hs Ht Hin. destruct (contains_sentinel_last _ data Hs Ht Hin). apply bucketing_rejects_reserved; assumption. Qed.

Theorem ef_rejects_contains c wl data :
  sortedb data = true -> in_type c data -> In (sentinel c) data -> ef_index_build c wl data = Err ThrowInvalidArgument.
Proof. intros Hs Ht Hin. destruct (contains_sentinel_last c data Hs Ht Hin). apply ef_rejects_reserved; assumption. Qed.

Theorem mapped_range_ctor_rejects_contains c data :
  sortedb data = true -> in_type c data -> In (sentinel c) data -> from_range c data = Err ThrowInvalidArgument.
Proof.
  intros Hs Ht Hin. destruct (contains_sentinel_last c data Hs Ht Hin).
  apply mapped_range_ctor_rejects_reserved; assumption.
Qed.

(* the two variants whose only source of invalid_argument is the inner build: equivalences *)
Theorem ef_rejects_contains_iff c wl data :
  0 <= c_eps c -> sortedb data = true -> in_type c data ->
  (ef_index_build c wl data = Err ThrowInvalidArgument <-> In (sentinel c) data).
Proof.
  intros He Hs Ht. split; [|apply ef_rejects_contains; assumption].
  intros H. unfold ef_index_build in H. destruct (zlen data =? 0); [discriminate|].
  set (c0 := mkCfg (c_kt c) (c_eps c) 0 (c_fdouble c) (c_par c) (c_avx512 c)) in *.
  destruct (build c0 data) as [ix|e] eqn:E; cbn [bind] in H; [discriminate|]. injection H as ->.
  change (sentinel c) with (sentinel c0).
  apply (build_rejects_contains_iff c0 data); [exact He|cbn; lia|exact Hs|exact Ht|exact E].
Qed.

Theorem mapped_range_ctor_rejects_contains_iff c data :
  0 <= c_eps c -> 0 <= c_epsrec c -> sortedb data = true -> in_type c data ->
  (from_range c data = Err ThrowInvalidArgument <-> In (sentinel c) data).
Proof.
  intros He Hr Hs Ht. split; [|apply mapped_range_ctor_rejects_contains; assumption].
  intros H. unfold from_range in H.
  destruct (build c data) as [ix|e] eqn:E; cbn [bind] in H; [discriminate|]. injection H as ->.
  apply (build_rejects_contains_iff c data); assumption.
Qed.

(* ================= CompressedPGMIndex ================= *)
Theorem compressed_rejects_reserved c data :
  data <> [] -> last_z data = sentinel c -> compressed_build c data = Err ThrowInvalidArgument.
Proof.
  intros Hne Hl. unfold compressed_build.
  assert (zlen data =? 0 = false) as ->.
  { destruct data; [contradiction|]. unfold zlen. cbn [length]. lia. }
  rewrite Hl, Z.eqb_refl. reflexivity.
Qed.

Theorem compressed_accepts_empty c : compressed_build c [] = Ok (mkCompressed 0 0 f64_zero 0 0 [] []).
Proof. reflexivity. Qed.

Lemma cbuild_upper_not_inv c fuel : forall segs offs last_n,
  0 <= c_epsrec c -> not_inv (cbuild_upper c fuel segs offs last_n).
Proof.
  induction fuel as [|f IH]; intros segs offs last_n He; cbn [cbuild_upper].
  - destruct (_ || _); discriminate.
  - destruct (_ || _); [discriminate|].
    apply bind_not_inv; [apply chunk_not_inv; exact He|]. intros [[new0 x] cnt0] _.
    destruct (drop_sentinel_segment c new0 cnt0) as [new cnt]. apply IH. exact He.
Qed.

Lemma clevel_build_not_inv c segs icpts maps table pls lk : not_inv (clevel_build c segs icpts maps table pls lk).
Proof.
  unfold not_inv, clevel_build. destruct icpts as [|off t]; [discriminate|].
  destruct (_ >? _); [discriminate|]. destruct (negb _); discriminate.
Qed.

Lemma clevels_build_not_inv c is_ segs icpts maps table offs n lk :
  not_inv (clevels_build c is_ segs icpts maps table offs n lk).
Proof.
  induction is_ as [|i rest IH]; cbn [clevels_build]; [discriminate|].
  apply bind_not_inv; [apply clevel_build_not_inv|]. intros lv _.
  apply bind_not_inv; [exact IH|]. intros tl _. discriminate.
Qed.

Theorem compressed_rejects_only_reserved c data :
  0 <= c_eps c -> 0 <= c_epsrec c ->
  compressed_build c data = Err ThrowInvalidArgument -> data <> [] /\ last_z data = sentinel c.
Proof.
  intros He Hr H. unfold compressed_build in H.
  destruct (zlen data =? 0) eqn:En; [discriminate|].
  destruct (last_z data =? sentinel c) eqn:El.
  - split; [intros ->; discriminate | lia].
  - exfalso. revert H. apply bind_not_inv; [apply par_not_inv; exact He|]. intros [[segs00 x] c00] _.
    destruct (drop_sentinel_segment c segs00 c00) as [segs0 c0].
    apply bind_not_inv; [apply cbuild_upper_not_inv; exact Hr|]. intros [segs offs] _.
    destruct (merge_slopes c segs) as [[table maps] icpts].
    apply bind_not_inv.
    { destruct (c_epsrec c >? 0); [|discriminate].
      apply bind_not_inv; [apply nth_res_not_inv|]. intros cs _.
      destruct (cseg_line cs (hd 0 data)) as [sl icpt]. discriminate. }
    intros [[rs ri] rr] _.
    apply bind_not_inv; [apply clevels_build_not_inv|]. intros lvls _. discriminate.
Qed.

Theorem compressed_rejects_iff c data :
  0 <= c_eps c -> 0 <= c_epsrec c ->
  (compressed_build c data = Err ThrowInvalidArgument <-> data <> [] /\ last_z data = sentinel c).
Proof.
  intros He Hr. split; [apply compressed_rejects_only_reserved; assumption|].
  intros [Hne Hl]. apply compressed_rejects_reserved; assumption.
Qed.

Theorem compressed_rejects_contains c data :
  sortedb data = true -> in_type c data -> In (sentinel c) data -> compressed_build c data = Err ThrowInvalidArgument.
Proof. intros Hs Ht Hin. destruct (contains_sentinel_last c data Hs Ht Hin). apply compressed_rejects_reserved; assumption. Qed.

Theorem compressed_rejects_contains_iff c data :
  0 <= c_eps c -> 0 <= c_epsrec c -> sortedb data = true -> in_type c data ->
  (compressed_build c data = Err ThrowInvalidArgument <-> In (sentinel c) data).
Proof.
  intros He Hr Hs Ht. split; [|apply compressed_rejects_contains; assumption].
  intros H. destruct (compressed_rejects_only_reserved c data He Hr H). apply last_sentinel_contains; assumption.
Qed.

(* ================= MultidimensionalPGMIndex: the raw decision rule =================
   The constructor first throws runtime_error for a coordinate that is too wide; otherwise the inner
   PGMIndex is built on the sorted codes and its rule applies to the largest code.  (ComposeMulti3.v
   shows that, for the configurations the class admits, the second case never happens: a point whose
   code is the reserved value has a coordinate that is too wide, so it is rejected with runtime_error.) *)
Definition has_wide (m : mcfg) (points : list (list Z)) : bool :=
  existsb (fun p => existsb (fun x => BIT_WIDTH x >=? field_bits m) p) points.

Lemma insert_sorted_ne x l : insert_sorted x l <> [].
Proof. destruct l as [|y t]; cbn [insert_sorted]; [discriminate|]. destruct (x <=? y); discriminate. Qed.
Lemma sort_codes_nil l : sort_codes l = [] <-> l = [].
Proof.
  split; [|intros ->; reflexivity]. destruct l as [|x t]; [reflexivity|].
  cbn [sort_codes fold_right]. intros H. exfalso. exact (insert_sorted_ne _ _ H).
Qed.

Theorem multi_invalid_iff m points :
  0 <= c_eps (m_cfg m) -> 0 <= c_epsrec (m_cfg m) ->
  (multi_build m points = Err ThrowInvalidArgument <->
     has_wide m points = false /\ points <> [] /\
     last_z (sort_codes (map (encode m) points)) = sentinel (m_cfg m)).
Proof.
  intros He Hr. unfold multi_build. fold (has_wide m points).
  destruct (has_wide m points).
  - split; [discriminate|]. intros [H _]. discriminate.
  - set (data := sort_codes (map (encode m) points)).
    assert (Hnil : data <> [] <-> points <> []).
    { unfold data. rewrite sort_codes_nil. split; intros H E; apply H; [rewrite E; reflexivity|].
      destruct points; [reflexivity|discriminate]. }
    split.
    + intros H. destruct (build (m_cfg m) data) as [ix|e] eqn:E; cbn [bind] in H; [discriminate|].
      injection H as ->. destruct (build_rejects_only_reserved _ _ He Hr E) as [Hne Hl].
      split; [reflexivity|]. split; [apply Hnil; exact Hne|exact Hl].
    + intros (_ & Hne & Hl). rewrite build_rejects_reserved; [reflexivity|apply Hnil; exact Hne|exact Hl].
Qed.

Theorem multi_wide_wins m points : has_wide m points = true -> multi_build m points = Err ThrowRuntimeError.
Proof. intros H. unfold multi_build. fold (has_wide m points). rewrite H. reflexivity. Qed.

(* ---- the bulk-load rule with the real per-level index (DynExec.idx_ops = PGMIndex::build) ----
   PGMIndex::build reports an invalid argument only for keys ending with the reserved KEY; when no key
   of the range is the reserved key the hypothesis of dyn_bulk_invalid_iff about the level index holds *)
Require Import DynExec.
Theorem dyn_bulk_invalid_iff_pgm c tomb kmax base bl il pairs d0 :
  0 <= c_eps c -> 0 <= c_epsrec c ->
  @dyn_ctor index tomb kmax base bl il = Ok d0 -> ~ In (sentinel c) (map fst pairs) ->
  (dyn_bulk (idx_ops c) tomb kmax pairs base bl il = Err ThrowInvalidArgument <->
     sortedb (map fst pairs) = false \/
     exists t pre k post, tomb = Some t /\ pairs = pre ++ (k, t) :: post /\ forall p, In p pre -> fst p <> k).
Proof.
  intros He Hr Hc Hns. apply (dyn_bulk_invalid_iff (idx_ops c) tomb kmax base bl il pairs d0 Hc).
  intros keys Hincl H. cbn [idx_ops pg_build] in H.
  destruct (build_rejects_only_reserved c keys He Hr H) as [Hne Hl].
  apply Hns. apply Hincl. apply last_sentinel_contains; assumption.
Qed.

Print Assumptions dyn_bulk_invalid_iff_pgm.
Print Assumptions dyn_bulk_rejects_unsorted_anywhere.
Print Assumptions dyn_bulk_rejects_reserved_value_anywhere.
Print Assumptions dyn_bulk_invalid_iff.
Print Assumptions build_rejects_contains.
Print Assumptions build_rejects_contains_iff.
Print Assumptions bucketing_rejects_contains.
Print Assumptions ef_rejects_contains_iff.
Print Assumptions mapped_range_ctor_rejects_contains_iff.
Print Assumptions compressed_rejects_iff.
Print Assumptions compressed_rejects_contains_iff.
Print Assumptions multi_invalid_iff.

(* Reject2Ex.v — non-vacuity of the rejection theorems of Reject2.v / ComposeMulti3.v and of
   ComposeMulti3.multi_build_total: every theorem is instantiated on concrete data and the model's own
   answer is computed (vm_compute) next to it. *)
Require Import Base Fp PlaModel GenLeaf IndexModel IndexProofs DynModel DynSpec DynExec MultiModel MultiMorton MultiBigmin
  VariantsModel MappedModel CompressedModel Reject Reject2 ComposeIdx ComposeBuild ComposeMulti ComposeMulti2
  ComposeMulti2Ex ComposeMulti3.
From Coq Require Import ZifyBool Permutation.
Local Open Scope Z_scope.

Definition is_inv {A} (r : res A) : bool := match r with Err ThrowInvalidArgument => true | _ => false end.
Definition is_rt {A} (r : res A) : bool := match r with Err ThrowRuntimeError => true | _ => false end.
Definition is_ok {A} (r : res A) : bool := match r with Ok _ => true | _ => false end.

(* ---- DynamicPGMIndex<uint64_t, uint8_t>: the per-level index is the real PGMIndex ---- *)
Definition dc : cfg := mkCfg (mkK 64 false) 4 2 true 1 false.
Definition dops : pgmops index := idx_ops dc.
Definition dbulk (pairs : list (Z * Z)) : res (@dyn index) := dyn_bulk dops (Some 255) (2 ^ 64 - 1) pairs 8 0 0.

Lemma dctor_ok : exists d0, @dyn_ctor index (Some 255) (2 ^ 64 - 1) 8 0 0 = Ok d0.
Proof. apply dyn_ctor_accepts_pow2; [lia|reflexivity]. Qed.

(* a descent between the FIRST and the second pair (pre = []) *)
Example ex_descent_first : dbulk [(5, 1); (3, 2); (7, 3)] = Err ThrowInvalidArgument.
Proof.
  destruct dctor_ok as (d0 & Hc).
  exact (dyn_bulk_rejects_unsorted_anywhere dops (Some 255) (2 ^ 64 - 1) 8 0 0 [] 5 1 3 2 [(7, 3)] d0 Hc ltac:(lia)).
Qed.
Example ex_descent_first_computed : is_inv (dbulk [(5, 1); (3, 2); (7, 3)]) = true.
Proof. vm_compute. reflexivity. Qed.

(* a descent in the middle, after a reserved value: still the same exception *)
Example ex_descent_later : dbulk [(1, 255); (4, 1); (9, 2); (8, 3)] = Err ThrowInvalidArgument.
Proof.
  destruct dctor_ok as (d0 & Hc).
  exact (dyn_bulk_rejects_unsorted_anywhere dops (Some 255) (2 ^ 64 - 1) 8 0 0 [(1, 255); (4, 1)] 9 2 8 3 [] d0 Hc ltac:(lia)).
Qed.

(* the reserved value in the last pair; in the first pair; equal keys before it do not matter *)
Example ex_reserved_last : dbulk [(1, 10); (1, 11); (2, 20); (3, 255)] = Err ThrowInvalidArgument.
Proof.
  destruct dctor_ok as (d0 & Hc).
  apply (dyn_bulk_rejects_reserved_value_anywhere dops 255 (2 ^ 64 - 1) 8 0 0 [(1, 10); (1, 11); (2, 20)] 3 [] d0 Hc).
  cbn [In]. intros p [<-|[<-|[<-|[]]]]; cbn [fst]; lia.
Qed.
Example ex_reserved_first : dbulk [(1, 255); (2, 20)] = Err ThrowInvalidArgument.
Proof.
  destruct dctor_ok as (d0 & Hc).
  apply (dyn_bulk_rejects_reserved_value_anywhere dops 255 (2 ^ 64 - 1) 8 0 0 [] 1 [(2, 20)] d0 Hc). intros p [].
Qed.
Example ex_reserved_computed :
  is_inv (dbulk [(1, 10); (1, 11); (2, 20); (3, 255)]) = true /\ is_inv (dbulk [(1, 255); (2, 20)]) = true.
Proof. split; vm_compute; reflexivity. Qed.

(* sharpness of the side condition: the reserved value in a pair whose key already occurred is never
   turned into an Item (`first->first != std::prev(out)->first` fails): the range is ACCEPTED, and the
   first pair of the group wins *)
Example ex_reserved_shadowed : is_ok (dbulk [(1, 10); (1, 255); (2, 20)]) = true.
Proof. vm_compute. reflexivity. Qed.
(* equal keys are not a descent *)
Example ex_equal_keys_ok : is_ok (dbulk [(1, 10); (1, 11); (2, 20); (2, 21)]) = true.
Proof. vm_compute. reflexivity. Qed.

(* the equivalence, used in the accepting direction: sorted keys, and the reserved value only in a
   shadowed pair *)
Example ex_iff_accepts : dbulk [(1, 10); (1, 255); (2, 20)] <> Err ThrowInvalidArgument.
Proof.
  destruct dctor_ok as (d0 & Hc). intros H.
  apply (dyn_bulk_invalid_iff_pgm dc (Some 255) (2 ^ 64 - 1) 8 0 0 _ d0 ltac:(cbn; lia) ltac:(cbn; lia) Hc) in H.
  - destruct H as [H|(t & pre & k & post & Ht & Hp & Hpre)]; [vm_compute in H; discriminate|].
    injection Ht as <-.
    destruct pre as [|a [|b [|c0 pre]]]; cbn [app] in Hp.
    + inversion Hp.
    + inversion Hp; subst. apply (Hpre (1, 10)); [left; reflexivity|reflexivity].
    + inversion Hp.
    + inversion Hp as [[Ha Hb Hc0 Hn]]. destruct pre; discriminate.
  - vm_compute. intros [H'|[H'|[H'|[]]]]; discriminate.
Qed.

(* ---- the static classes: sorted, in type, CONTAINS numeric_limits<K>::max() ---- *)
Definition kmax64 : Z := 2 ^ 64 - 1.
Definition d_bad : list Z := [1; 5; 9; 9; 1000; kmax64].
Definition d_good : list Z := [1; 5; 9; 9; 1000; kmax64 - 1].
Lemma dc_sentinel : sentinel dc = kmax64. Proof. reflexivity. Qed.
Lemma d_bad_sorted : sortedb d_bad = true. Proof. vm_compute. reflexivity. Qed.
Lemma d_bad_in_type c : c_kt c = mkK 64 false -> in_type c d_bad.
Proof. intros E. unfold in_type. rewrite E. unfold d_bad. repeat constructor. Qed.
Lemma d_bad_contains : In kmax64 d_bad. Proof. unfold d_bad. do 5 right. left. reflexivity. Qed.
Lemma d_good_free : ~ In kmax64 d_good.
Proof. unfold d_good, kmax64. cbn [In]. intros [H|[H|[H|[H|[H|[H|[]]]]]]]; vm_compute in H; discriminate. Qed.

Example ex_build_rejects : build dc d_bad = Err ThrowInvalidArgument.
Proof. apply build_rejects_contains; [exact d_bad_sorted|apply d_bad_in_type; reflexivity|exact d_bad_contains]. Qed.
Example ex_build_accepts : build dc d_good <> Err ThrowInvalidArgument.
Proof. apply build_accepts_without_reserved; [cbn; lia|cbn; lia|exact d_good_free]. Qed.
Example ex_build_computed : is_inv (build dc d_bad) = true /\ is_ok (build dc d_good) = true.
Proof. split; vm_compute; reflexivity. Qed.
(* sharpness of `sortedb`: the maximum in the middle of an unsorted range is not what build looks at
   (only the last element is compared; the unsorted range then fails in the segmentation builder) *)
Example ex_build_unsorted : is_inv (build dc [1; kmax64; 5]) = false /\ is_ok (build dc [1; kmax64; 5]) = false.
Proof. split; vm_compute; reflexivity. Qed.

Definition bc : bcfg := mkBcfg (mkCfg (mkK 64 false) 2 0 false 1 false) 10 0.
Example ex_bucketing_rejects : bucketing_build bc d_bad = Err ThrowInvalidArgument.
Proof. apply bucketing_rejects_contains; [exact d_bad_sorted|apply d_bad_in_type; reflexivity|exact d_bad_contains]. Qed.
Example ex_bucketing_computed : is_inv (bucketing_build bc d_bad) = true /\ is_ok (bucketing_build bc d_good) = true.
Proof. split; vm_compute; reflexivity. Qed.

Example ex_ef_rejects : ef_index_build dc 4 d_bad = Err ThrowInvalidArgument.
Proof. apply ef_rejects_contains; [exact d_bad_sorted|apply d_bad_in_type; reflexivity|exact d_bad_contains]. Qed.
Example ex_ef_accepts : ef_index_build dc 4 d_good <> Err ThrowInvalidArgument.
Proof.
  intros H. apply (ef_rejects_contains_iff dc 4 d_good) in H; [exact (d_good_free H)|cbn; lia|vm_compute; reflexivity|].
  unfold in_type, d_good. repeat constructor.
Qed.
Example ex_ef_computed : is_inv (ef_index_build dc 4 d_bad) = true /\ is_ok (ef_index_build dc 4 d_good) = true.
Proof. split; vm_compute; reflexivity. Qed.

Example ex_mapped_rejects : from_range dc d_bad = Err ThrowInvalidArgument.
Proof. apply mapped_range_ctor_rejects_contains; [exact d_bad_sorted|apply d_bad_in_type; reflexivity|exact d_bad_contains]. Qed.
Example ex_mapped_accepts : from_range dc d_good <> Err ThrowInvalidArgument.
Proof.
  intros H. apply (mapped_range_ctor_rejects_contains_iff dc d_good) in H;
    [exact (d_good_free H)|cbn; lia|cbn; lia|vm_compute; reflexivity|].
  unfold in_type, d_good. repeat constructor.
Qed.
Example ex_mapped_computed : is_inv (from_range dc d_bad) = true /\ is_ok (from_range dc d_good) = true.
Proof. split; vm_compute; reflexivity. Qed.

Example ex_compressed_rejects : compressed_build dc d_bad = Err ThrowInvalidArgument.
Proof. apply compressed_rejects_contains; [exact d_bad_sorted|apply d_bad_in_type; reflexivity|exact d_bad_contains]. Qed.
Example ex_compressed_accepts : compressed_build dc d_good <> Err ThrowInvalidArgument.
Proof.
  intros H. apply (compressed_rejects_contains_iff dc d_good) in H;
    [exact (d_good_free H)|cbn; lia|cbn; lia|vm_compute; reflexivity|].
  unfold in_type, d_good. repeat constructor.
Qed.
Example ex_compressed_computed : is_inv (compressed_build dc d_bad) = true /\ is_ok (compressed_build dc d_good) = true.
Proof. split; vm_compute; reflexivity. Qed.

(* ---- MultidimensionalPGMIndex<2, uint32_t, 1, 1, float> (the configuration of ComposeMulti2Ex.v) ---- *)
Lemma ex_narrow : narrow ex_m ex_pts.
Proof.
  unfold narrow, ex_pts. change (field_bits ex_m - 1) with 15.
  repeat (constructor; [repeat (constructor; [lia|]); constructor|]). constructor.
Qed.

(* the constructor succeeds: multi_build_total instantiated *)
Example ex_multi_total : exists mu, multi_build ex_m ex_pts = Ok mu.
Proof. exact (multi_build_total ex_m ex_pts ex_valid ex_kt ex_idx_ok ex_small ex_points_ok ex_narrow ex_ne ex_n). Qed.
Example ex_multi_total_computed : is_ok (multi_build ex_m ex_pts) = true.
Proof. vm_compute. reflexivity. Qed.

(* the total end-to-end theorems instantiated: a box query and two membership queries, with no
   hypothesis that the constructor succeeded *)
Example ex_multi_total_queries : exists mu, multi_build ex_m ex_pts = Ok mu /\
  multi_range ex_m mu [5; 5] ex_top = Ok [[5;6];[7;8];[9;9];[40;41];[100;200];[300;20];[1000;1000];[32767;32767]] /\
  multi_contains ex_m mu [300; 20] = Ok true /\ multi_contains ex_m mu [300; 21] <> Ok true.
Proof.
  destruct (multi_total_end_to_end ex_m ex_pts ex_valid ex_kt ex_idx_ok ex_small ex_points_ok ex_narrow ex_ne ex_n ex_fl)
    as (mu & Hb & (_ & _ & Hr) & Hc & _).
  exists mu. split; [exact Hb|].
  destruct (multi_build_inv ex_m ex_pts mu Hb) as [_ Hd].
  assert (Hco : forall p : list Z, coords_ok 16 p <-> Forall (fun x => 0 <= x < 65536) p) by (intros; reflexivity).
  split; [|split].
  - rewrite Hr; [rewrite Hd; vm_compute; reflexivity|reflexivity|reflexivity| | | |right; discriminate];
      try (apply Hco; repeat constructor; lia); repeat constructor; lia.
  - apply Hc; [reflexivity|apply Hco; repeat constructor; lia|right; discriminate|].
    unfold ex_pts. repeat (first [left; reflexivity | right]).
  - intros H. apply Hc in H; [|reflexivity|apply Hco; repeat constructor; lia|right; discriminate].
    unfold ex_pts in H. cbn [In] in H. intuition discriminate.
Qed.

(* the point whose code is the reserved value of the inner index: rejected with runtime_error *)
Definition ex_pts_top : list (list Z) := [[1;2];[3;4]] ++ [ex_top] ++ [[5;6]].
Example ex_multi_reserved_code : multi_build ex_m ex_pts_top = Err ThrowRuntimeError.
Proof.
  apply (multi_reserved_code_rejected ex_m ex_pts_top ex_top ex_valid ex_kt).
  - unfold ex_pts_top. cbn [app]. right. right. left. reflexivity.
  - split; [reflexivity|]. unfold ex_top. repeat constructor; lia.
  - exact finding_top_is_reserved.
Qed.
Example ex_multi_top_point : multi_build ex_m ex_pts_top = Err ThrowRuntimeError.
Proof.
  apply (multi_top_point_rejected ex_m ex_pts_top ex_valid ex_kt); [cbn; lia|].
  rewrite <- ex_top_is_top. unfold ex_pts_top. cbn [app]. right. right. left. reflexivity.
Qed.
Example ex_multi_reserved_computed : is_rt (multi_build ex_m ex_pts_top) = true.
Proof. vm_compute. reflexivity. Qed.

(* invalid_argument is never the outcome, with or without the all-ones point *)
Example ex_multi_never_invalid :
  multi_build ex_m ex_pts_top <> Err ThrowInvalidArgument /\ multi_build ex_m ex_pts <> Err ThrowInvalidArgument.
Proof.
  split; apply multi_never_invalid; try exact ex_valid; try exact ex_kt; try (cbn; lia); try exact ex_points_ok.
  unfold ex_pts_top, ex_top. cbn [app]. repeat constructor; cbn; lia.
Qed.

(* the raw rule would fire only if the width check were absent: the largest code of ex_pts_top IS the
   reserved value *)
Example ex_multi_raw : last_z (sort_codes (map (encode ex_m) ex_pts_top)) = sentinel (m_cfg ex_m) /\
  has_wide ex_m ex_pts_top = true.
Proof. split; vm_compute; reflexivity. Qed.

Print Assumptions ex_multi_total.
Print Assumptions ex_multi_total_queries.
Print Assumptions ex_multi_reserved_code.
Print Assumptions ex_compressed_rejects.
Print Assumptions ex_reserved_last.

(* Extract.v — extraction of the executable model and the judges to OCaml.
   Only ExtrOcamlBasic: bool/option/unit/list/prod/sumbool/sumor are mapped to OCaml's own types,
   andb/orb are inlined; Z, positive, N, nat remain the extracted inductive types. *)
Require Import Extraction ExtrOcamlBasic.
Require Import Base Fp GenLeaf PlaModel IndexModel.
Extraction Language OCaml.
Extraction "model.ml"
  Base.lb Base.ub Base.lb_range Base.ub_range Base.sortedb Base.ssortedb
  Fp.frepr64 Fp.frepr32 Fp.frepr80
  PlaModel.make_segmentation_par PlaModel.make_segmentation PlaModel.cseg_line PlaModel.add_point PlaModel.pla_init
  PlaModel.get_segment
  IndexModel.build IndexModel.search_tr IndexModel.search IndexModel.C01_pred_b IndexModel.C02_pred_b
  IndexModel.slope_to_floating IndexModel.segment_of_cseg
  GenLeaf.par_threshold.

(* Extract.v — extraction of the executable model and the judges to OCaml.
   Only ExtrOcamlBasic: bool/option/unit/list/prod/sumbool/sumor are mapped to OCaml's own types,
   andb/orb are inlined; Z, positive, N, nat remain the extracted inductive types. *)
Require Import Extraction ExtrOcamlBasic.
Require Import Base Fp GenLeaf PlaModel PlaSpec IndexModel DynModel DynSpec DynExec VariantsModel MappedModel MultiModel CompressedModel CmpCertDefs.
Extraction Language OCaml.
Extraction "model.ml"
  Base.lb Base.ub Base.lb_range Base.ub_range Base.sortedb Base.ssortedb
  Fp.frepr64 Fp.frepr32 Fp.frepr80
  PlaModel.make_segmentation_par PlaModel.make_segmentation PlaModel.cseg_line PlaModel.add_point PlaModel.pla_init
  PlaModel.get_segment PlaModel.one_point
  PlaSpec.band_lo PlaSpec.band_hi PlaSpec.line_ok_b PlaSpec.cert4_b PlaSpec.line_close_b PlaSpec.reported_line_close_b
  IndexModel.build IndexModel.search_tr IndexModel.search IndexModel.C01_pred_b IndexModel.C02_pred_b
  IndexModel.slope_to_floating IndexModel.segment_of_cseg
  GenLeaf.par_threshold GenLeaf.c_epsilon_recursive Base.kmin Base.kmax
  DynExec.idx_ops DynModel.dyn_ctor DynModel.dyn_bulk DynModel.insert_or_assign DynModel.erase DynModel.dfind DynModel.count
  DynModel.lower_bound DynModel.range DynModel.to_list_from DynModel.iter_of DynModel.dyn_begin DynModel.dyn_size DynModel.dyn_empty
  VariantsModel.bucketing_build VariantsModel.bucketing_search VariantsModel.pow_two VariantsModel.top_shift
  VariantsModel.ef_index_build VariantsModel.ef_pred VariantsModel.ef_search VariantsModel.ef_values Base.wrapK
  MappedModel.from_range MappedModel.from_raw MappedModel.raw_file MappedModel.reopen MappedModel.mapped_lower_bound
  MappedModel.mapped_upper_bound MappedModel.mapped_count MappedModel.mapped_contains
  MultiModel.multi_build MultiModel.multi_range MultiModel.multi_contains MultiModel.bigmin MultiModel.box_zcontains
  MultiModel.encode MultiModel.decode
  CompressedModel.compressed_build CompressedModel.compressed_search CompressedModel.cl_get_intercept
  CmpCertDefs.cmp_cert_b CmpCertDefs.cmp_struct_b CmpCertDefs.cmp_cert_failing
  DynSpec.am_insert DynSpec.am_erase DynSpec.am_find DynSpec.am_lower_bound DynSpec.am_from DynSpec.am_range DynSpec.am_bulk DynSpec.inv_b DynSpec.pgm_keys_ok_b.

(* DynIterExamples.v — non-vacuity of the C06 theorems of DynIter.v on the reachable state ex6 of DynCore.v
   (levels: buffer [10 -> 111; 20 -> tombstone], level 2 [10; 20; 30; 40]; map {10 -> 111, 30 -> 300, 40 -> 400}). *)
From Coq Require Import ZArith List Bool Lia ZifyBool.
Require Import Base GenLeaf DynModel DynSpec DynCoreLemmas DynCoreInv DynCoreRefine DynCoreQuery DynCore.
Require Import DynIterRange DynIterTree DynIter.
Local Open Scope Z_scope.

Example ex_range : range tops ex6 15 40 = Ok [(30, 300); (40, 400)].
Proof.
  destruct ex_reachable as [H [_ [Hs _]]].
  exact (C06_range tops 1000 (tops_contract 1000) tops_build0 ex6 exm 15 40 H Hs ltac:(lia) ltac:(lia)).
Qed.

Example ex_iter : exists r, lower_bound tops ex6 5 = Ok r /\
  to_list_from tops ex6 (iter_of r) = Ok [(10, 111); (30, 300); (40, 400)].
Proof.
  destruct ex_reachable as [H [_ [Hs _]]].
  exact (C06_iter tops 1000 (tops_contract 1000) tops_build0 ex6 exm 5 H Hs ltac:(lia)).
Qed.

Example ex_size : dyn_size tops ex6 0 = Ok 3.
Proof.
  destruct ex_reachable as [H [_ [Hs _]]].
  apply (C06_size tops 1000 (tops_contract 1000) tops_build0 ex6 exm 0 H Hs ltac:(lia)).
  vm_compute. repeat constructor; discriminate.
Qed.

Example ex_empty : dyn_empty tops ex6 0 = Ok false /\ dyn_empty tops ex0 0 = Ok true.
Proof.
  destruct ex_reachable as [H [_ [Hs _]]]. split.
  - apply (C06_empty tops 1000 (tops_contract 1000) tops_build0 ex6 exm 0 H Hs ltac:(lia)).
    vm_compute. repeat constructor; discriminate.
  - reflexivity.
Qed.

(* the model itself, run directly, agrees *)
Example ex_direct : to_list_from tops ex6 (iter_of (Some (1, 0, mkItem 10 (Some 111)))) = Ok [(10, 111); (30, 300); (40, 400)].
Proof. vm_compute. reflexivity. Qed.

Print Assumptions ex_range.
Print Assumptions ex_iter.
Print Assumptions ex_size.
Print Assumptions ex_empty.

(* CmpMono.v — monotonicity in the key of one level step of CompressedPGMIndex::search for a FIXED segment:
   int64_t(slope * Floating(d)) with saturation is monotone in d for a finite non-negative slope,
   hence CompressedLevel::operator() and the root line are monotone in the key: a product that is not
   saturated is below 2^62, so its sum with an intercept below 2^62 (cmp_struct_b) stays inside int64. *)
From Coq Require Import ZArith Reals Lra Lia Bool List.
From Flocq Require Import Core Relative BinarySingleNaN.
Require Import Base Fp FloatOkLemmas PlaModel GenLeaf IndexModel CompressedModel CmpCertDefs.
Local Open Scope Z_scope.

(* the conversion to int64 with the saturation test of the model, for one product *)
Definition sat_res {p e} (x : binary_float p e) : Z :=
  if match truncZ x with Some z => z >=? 2 ^ 62 | None => true end then 2 ^ 63 - 1 else cvtt_i64 x.

Lemma fmul_to_i64_eq c s d :
  fmul_to_i64 c s d = if c_fdouble c then sat_res (mul64 s (ofZ64 d)) else sat_res (mul32 (f64_to_f32 s) (ofZ32 d)).
Proof. unfold fmul_to_i64, sat_res. destruct (c_fdouble c); reflexivity. Qed.

Lemma sat_res_le {p e} (x : binary_float p e) : sat_res x <= 2 ^ 63 - 1.
Proof.
  unfold sat_res, cvtt_i64. destruct (truncZ x) as [z|]; [|lia].
  destruct (z >=? 2 ^ 62) eqn:E; [lia|].
  destruct ((- 2 ^ 63 <=? z) && (z <? 2 ^ 63)) eqn:E2; lia.
Qed.

Lemma nonneg_finite_spec {p e} (x : binary_float p e) :
  nonneg_finite x = true -> is_finite x = true /\ (0 <= B2R x)%R.
Proof.
  destruct x as [s|s| |s m ex Hb]; cbn; try discriminate; intros H.
  - split; [reflexivity|lra].
  - destruct s; [discriminate|]. split; [reflexivity|]. apply F2R_ge_0. cbn. lia.
Qed.

Section Gen.
Variables prec emax : Z.
Context (Hp : Prec_gt_0 prec) (He : Prec_lt_emax prec emax).
Notation bf := (binary_float prec emax).
Notation mult := (Bmult (prec:=prec) (emax:=emax) (prec_gt_0_:=Hp) (prec_lt_emax_:=He) mode_NE).
Notation rn := (RN prec emax).

Lemma rn_le x y : (x <= y)%R -> (rn x <= rn y)%R.
Proof. intros H. unfold RN, ffexp. apply round_le; auto with typeclass_instances. Qed.

(* either the product is not finite (overflow), or it is the rounding of the exact product *)
Lemma mult_cases (s y : bf) : is_finite s = true -> is_finite y = true ->
  (truncZ (mult s y) = None) \/
  ((Rabs (rn (B2R s * B2R y)) < bpow radix2 emax)%R /\
   truncZ (mult s y) = Some (Ztrunc (rn (B2R s * B2R y)))).
Proof.
  intros Fs Fy. generalize (Bmult_correct prec emax Hp He mode_NE s y).
  change (round radix2 (SpecFloat.fexp prec emax) (round_mode mode_NE)) with rn.
  destruct (Rlt_bool_spec (Rabs (rn (B2R s * B2R y))) (bpow radix2 emax)) as [E|E].
  - intros (A & B & _). right. split; [exact E|].
    rewrite truncZ_finite by (rewrite B, Fs, Fy; reflexivity). now rewrite A.
  - intros A. left. unfold binary_overflow, overflow_to_inf in A.
    destruct (mult s y); cbn in A; try discriminate. reflexivity.
Qed.

Lemma Ztrunc_nonneg x : (0 <= x)%R -> 0 <= Ztrunc x.
Proof. intros H. rewrite Ztrunc_floor by exact H. apply Zfloor_lub. exact H. Qed.

Lemma sat_mult_nonneg (s y : bf) : nonneg_finite s = true -> is_finite y = true -> (0 <= B2R y)%R ->
  0 <= sat_res (mult s y).
Proof.
  intros Hs Fy Hy. destruct (nonneg_finite_spec s Hs) as [Fs Ps].
  unfold sat_res, cvtt_i64. destruct (mult_cases s y Fs Fy) as [E|[_ E]]; rewrite E; [lia|].
  assert (Z0 : 0 <= Ztrunc (rn (B2R s * B2R y))).
  { apply Ztrunc_nonneg. apply (RN_ge_0 prec emax Hp). nra. }
  destruct (_ >=? _) eqn:E1; [lia|].
  destruct ((- 2 ^ 63 <=? _) && (_ <? 2 ^ 63)) eqn:E2; lia.
Qed.

Lemma sat_mult_mono (s y1 y2 : bf) : nonneg_finite s = true ->
  is_finite y1 = true -> is_finite y2 = true -> (0 <= B2R y1 <= B2R y2)%R ->
  sat_res (mult s y1) <= sat_res (mult s y2).
Proof.
  intros Hs F1 F2 Hy. destruct (nonneg_finite_spec s Hs) as [Fs Ps].
  destruct (mult_cases s y2 Fs F2) as [E2|[B2 E2]].
  { pose proof (sat_res_le (mult s y1)). unfold sat_res at 2. rewrite E2. lia. }
  assert (L : (rn (B2R s * B2R y1) <= rn (B2R s * B2R y2))%R) by (apply rn_le; nra).
  assert (P1 : (0 <= rn (B2R s * B2R y1))%R) by (apply (RN_ge_0 prec emax Hp); nra).
  destruct (mult_cases s y1 Fs F1) as [E1|[_ E1]].
  { (* impossible: the smaller product is bounded by the larger *)
    exfalso. generalize (Bmult_correct prec emax Hp He mode_NE s y1).
    change (round radix2 (SpecFloat.fexp prec emax) (round_mode mode_NE)) with rn.
    rewrite Rlt_bool_true.
    - intros (A & B & _). rewrite truncZ_finite in E1 by (rewrite B, Fs, F1; reflexivity). discriminate.
    - rewrite Rabs_pos_eq by exact P1. eapply Rle_lt_trans; [exact L|].
      eapply Rle_lt_trans; [apply Rle_abs|exact B2]. }
  pose proof (Ztrunc_le _ _ L) as LZ. pose proof (Ztrunc_nonneg _ P1) as Z0.
  unfold sat_res, cvtt_i64. rewrite E1, E2.
  set (z1 := Ztrunc (rn (B2R s * B2R y1))) in *. set (z2 := Ztrunc (rn (B2R s * B2R y2))) in *.
  destruct (z1 >=? 2 ^ 62) eqn:G1; destruct (z2 >=? 2 ^ 62) eqn:G2;
  destruct ((- 2 ^ 63 <=? z1) && (z1 <? 2 ^ 63)) eqn:C1; destruct ((- 2 ^ 63 <=? z2) && (z2 <? 2 ^ 63)) eqn:C2; lia.
Qed.
End Gen.

(* a value that is not saturated is below the limit 2^62 *)
Lemma sat_res_presat {p e} (x : binary_float p e) : sat_res x = 2 ^ 63 - 1 \/ sat_res x < 2 ^ 62.
Proof.
  unfold sat_res, cvtt_i64. destruct (truncZ x) as [z|]; [|now left].
  destruct (z >=? 2 ^ 62) eqn:G; [now left|right].
  destruct ((- 2 ^ 63 <=? z) && (z <? 2 ^ 63)) eqn:C; lia.
Qed.

(* Floating(d) for an integer 0 <= d <= 2^64: finite, non-negative, monotone *)
Lemma ofZ_fin prec emax (Hp : Prec_gt_0 prec) (He : Prec_lt_emax prec emax) d :
  64 < emax -> 0 <= d <= 2 ^ 64 ->
  B2R (binary_normalize prec emax Hp He mode_NE d 0 false) = RN prec emax (IZR d)
  /\ is_finite (binary_normalize prec emax Hp He mode_NE d 0 false) = true.
Proof.
  intros E64 Hd. apply ofZ_R.
  assert (P0 : 0 < prec) by exact Hp.
  eapply Rle_lt_trans; [apply (RN_abs_le prec emax Hp 64); [unfold femin; lia|]|apply bpow_lt; lia].
  rewrite Rabs_pos_eq by (apply IZR_le; lia).
  change (bpow radix2 64) with (IZR (2 ^ 64)). apply IZR_le. lia.
Qed.

Lemma sat_ofZ_mono prec emax (Hp : Prec_gt_0 prec) (He : Prec_lt_emax prec emax) (s : binary_float prec emax) d1 d2 :
  64 < emax -> nonneg_finite s = true -> 0 <= d1 <= d2 -> d2 <= 2 ^ 64 ->
  let f d := Bmult (prec_gt_0_:=Hp) (prec_lt_emax_:=He) mode_NE s (binary_normalize prec emax Hp He mode_NE d 0 false) in
  0 <= sat_res (f d1) <= sat_res (f d2).
Proof.
  intros E64 Hs H12 H2 f. unfold f.
  destruct (ofZ_fin prec emax Hp He d1 E64) as [R1 F1]; [lia|].
  destruct (ofZ_fin prec emax Hp He d2 E64) as [R2 F2]; [lia|].
  assert (Q1 : (0 <= RN prec emax (IZR d1))%R) by (apply (RN_ge_0 prec emax Hp); apply IZR_le; lia).
  split.
  - apply sat_mult_nonneg; auto. rewrite R1. exact Q1.
  - apply sat_mult_mono; auto. rewrite R1, R2. split; [exact Q1|].
    apply rn_le; [exact Hp|]. apply IZR_le. lia.
Qed.

Theorem fmul_to_i64_mono c s d1 d2 :
  slope_ok c s = true -> 0 <= d1 <= d2 -> d2 <= 2 ^ 64 ->
  0 <= fmul_to_i64 c s d1 <= fmul_to_i64 c s d2.
Proof.
  intros Hs H12 H2. rewrite !fmul_to_i64_eq. unfold slope_ok in Hs. destruct (c_fdouble c).
  - apply (sat_ofZ_mono 53 1024 p53 e53 s d1 d2); auto. lia.
  - apply (sat_ofZ_mono 24 128 p24 e24 (f64_to_f32 s) d1 d2); auto. lia.
Qed.

(* a product is either saturated or below 2^62 *)
Theorem fmul_to_i64_presat c s d : fmul_to_i64 c s d = 2 ^ 63 - 1 \/ fmul_to_i64 c s d < 2 ^ 62.
Proof. rewrite fmul_to_i64_eq. destruct (c_fdouble c); apply sat_res_presat. Qed.

(* ---------- integer part: intercept addition, clamps, windows ---------- *)
Definition sat_add (p icpt : Z) : Z :=
  let pos := if p =? 2 ^ 63 - 1 then p else wrapS 64 (p + icpt) in if pos >? 0 then pos else 0.

Lemma wrapS64_id z : - 2 ^ 63 <= z < 2 ^ 63 -> wrapS 64 z = z.
Proof. intros H. unfold wrapS. change (64 - 1) with 63. rewrite Z.mod_small; lia. Qed.
Lemma wrapS64_range z : - 2 ^ 63 <= wrapS 64 z < 2 ^ 63.
Proof. unfold wrapS. change (64 - 1) with 63. pose proof (Z.mod_pos_bound (z + 2 ^ 63) (2 ^ 64)). lia. Qed.

Lemma sat_add_le p icpt : sat_add p icpt <= 2 ^ 63 - 1.
Proof.
  unfold sat_add. pose proof (wrapS64_range (p + icpt)).
  destruct (p =? 2 ^ 63 - 1) eqn:E; [destruct (p >? 0) eqn:G; lia|].
  destruct (wrapS 64 (p + icpt) >? 0) eqn:G; lia.
Qed.
Lemma sat_add_nonneg p icpt : 0 <= sat_add p icpt.
Proof. unfold sat_add. destruct (_ >? 0) eqn:G; lia. Qed.

Lemma sat_add_mono icpt pa pb :
  0 <= pa <= pb -> (pb = 2 ^ 63 - 1 \/ pb < 2 ^ 62) -> - 2 ^ 63 <= icpt < 2 ^ 62 ->
  sat_add pa icpt <= sat_add pb icpt.
Proof.
  intros Hp Hb Hi.
  destruct (pb =? 2 ^ 63 - 1) eqn:Eb.
  - pose proof (sat_add_le pa icpt). unfold sat_add at 2. rewrite Eb.
    destruct (pb >? 0) eqn:G; lia.
  - unfold sat_add. rewrite Eb. assert (pa =? 2 ^ 63 - 1 = false) as -> by lia.
    rewrite !wrapS64_id by lia.
    destruct (pa + icpt >? 0) eqn:G1; destruct (pb + icpt >? 0) eqn:G2; lia.
Qed.

Lemma kdiff_id c k key : ksigned (c_kt c) = false -> 0 <= key <= k -> k <= kmax (c_kt c) -> kdiff c k key = k - key.
Proof.
  intros Hu Hk Hm. unfold kdiff. destruct (kbits (c_kt c) >=? 32) eqn:E; [|reflexivity].
  unfold wrapK, kmax in *. rewrite Hu in *. unfold wrapU. apply Z.mod_small. lia.
Qed.

Lemma PGM_SUB_EPS_mono x y e : x <= y -> PGM_SUB_EPS x e <= PGM_SUB_EPS y e.
Proof. intros H. unfold PGM_SUB_EPS. destruct (x <=? e) eqn:E1; destruct (y <=? e) eqn:E2; lia. Qed.
Lemma PGM_ADD_EPS_mono x y e s : x <= y -> PGM_ADD_EPS x e s <= PGM_ADD_EPS y e s.
Proof. intros H. unfold PGM_ADD_EPS. destruct (x + e + 2 >=? s) eqn:E1; destruct (y + e + 2 >=? s) eqn:E2; lia. Qed.
Lemma PGM_SUB_EPS_nonneg x e : 0 <= PGM_SUB_EPS x e.
Proof. unfold PGM_SUB_EPS. destruct (x <=? e) eqn:E1; lia. Qed.
Lemma PGM_SUB_EPS_le x e : 0 <= x -> 0 <= e -> PGM_SUB_EPS x e <= x.
Proof. intros. unfold PGM_SUB_EPS. destruct (x <=? e) eqn:E1; lia. Qed.
Lemma PGM_ADD_EPS_le x e s : PGM_ADD_EPS x e s <= s /\ PGM_ADD_EPS x e s <= x + e + 2.
Proof. unfold PGM_ADD_EPS. destruct (x + e + 2 >=? s) eqn:E1; lia. Qed.
Lemma PGM_window_width x e s : PGM_ADD_EPS x e s - PGM_SUB_EPS x e <= 2 * e + 2.
Proof. unfold PGM_ADD_EPS, PGM_SUB_EPS. destruct (x + e + 2 >=? s) eqn:E1; destruct (x <=? e) eqn:E2; lia. Qed.

(* ---------- CompressedLevel::operator() for a fixed segment ---------- *)
Lemma nth_res_In {A} (l : list A) i a : nth_res l i = Ok a -> In a l.
Proof.
  unfold nth_res. destruct (i <? 0); [discriminate|].
  destruct (nth_error l (Z.to_nat i)) eqn:E; [|discriminate]. intros H. injection H as <-.
  eapply nth_error_In; eauto.
Qed.

Lemma cl_get_intercept_range l i v : cl_get_intercept l i = Ok v -> - 2 ^ 63 <= v < 2 ^ 63.
Proof.
  unfold cl_get_intercept. destruct (nth_res (cl_vals l) i); cbn [bind]; [|discriminate].
  intros H. injection H as <-. apply wrapS64_range.
Qed.

Lemma cl_eval_of c cp l i key icpt slope k :
  nth_res (cl_keys l) i = Ok key -> cl_get_intercept l i = Ok icpt -> cl_slope cp l i = Ok slope ->
  cl_eval c (cp_table cp) l i k = Ok (sat_add (fmul_to_i64 c slope (kdiff c k key)) icpt).
Proof.
  intros Hk Hi Hs. unfold cl_eval, cl_slope in *.
  destruct (nth_res (cl_slopes_map l) i) as [sm|]; cbn [bind] in *; [|discriminate].
  rewrite Hs, Hk, Hi. cbn [bind]. reflexivity.
Qed.


Lemma cl_eval_inv c cp l i k e : cl_eval c (cp_table cp) l i k = Ok e ->
  exists key icpt slope,
    nth_res (cl_keys l) i = Ok key /\ cl_get_intercept l i = Ok icpt /\ cl_slope cp l i = Ok slope.
Proof.
  unfold cl_eval, cl_slope.
  destruct (nth_res (cl_slopes_map l) i) as [sm|]; cbn [bind]; [|discriminate].
  destruct (nth_res (cp_table cp) sm) as [slope|]; cbn [bind]; [|discriminate].
  destruct (nth_res (cl_keys l) i) as [key|]; cbn [bind]; [|discriminate].
  destruct (cl_get_intercept l i) as [icpt|]; cbn [bind]; [|discriminate].
  intros _. exists key, icpt, slope. repeat split.
Qed.

Lemma lvl_struct_icpt l i icpt : lvl_struct_ok l = true -> cl_get_intercept l i = Ok icpt ->
  - 2 ^ 63 <= icpt < 2 ^ 62.
Proof.
  intros Hs Hi. pose proof (cl_get_intercept_range _ _ _ Hi) as R. split; [lia|].
  unfold cl_get_intercept in Hi. destruct (nth_res (cl_vals l) i) as [v|] eqn:E; cbn [bind] in Hi; [|discriminate].
  injection Hi as <-. apply nth_res_In in E. unfold lvl_struct_ok in Hs. rewrite forallb_forall in Hs.
  specialize (Hs v E). lia.
Qed.

Lemma lvl_gap_ok_inv l i k1 : lvl_gap_ok l i k1 = true ->
  exists key, nth_res (cl_keys l) i = Ok key /\ 0 <= key <= k1.
Proof.
  unfold lvl_gap_ok. destruct (nth_res (cl_keys l) i) as [key|]; [|discriminate].
  intros H. apply andb_prop in H. exists key. split; [reflexivity|lia].
Qed.

Lemma kmax_le_64 c : ksigned (c_kt c) = false -> kbits (c_kt c) <= 64 -> kmax (c_kt c) <= 2 ^ 64 - 1.
Proof.
  intros Hu Hb. unfold kmax. rewrite Hu.
  assert (2 ^ kbits (c_kt c) <= 2 ^ 64) by (apply Z.pow_le_mono_r; lia). lia.
Qed.

Theorem cl_eval_mono c cp l i k1 ka kb e1 :
  ksigned (c_kt c) = false -> kbits (c_kt c) <= 64 ->
  forallb (slope_ok c) (cp_table cp) = true -> lvl_struct_ok l = true ->
  lvl_gap_ok l i k1 = true -> cl_eval c (cp_table cp) l i k1 = Ok e1 ->
  k1 <= ka <= kb -> kb <= kmax (c_kt c) ->
  exists ea eb, cl_eval c (cp_table cp) l i ka = Ok ea /\ cl_eval c (cp_table cp) l i kb = Ok eb /\ 0 <= ea <= eb.
Proof.
  intros Hu Hb Ht Hl Hg He Hab Hm.
  destruct (lvl_gap_ok_inv _ _ _ Hg) as (key & Ek & Hkey).
  destruct (cl_eval_inv _ _ _ _ _ _ He) as (key' & icpt & slope & Ek' & Ei & Es).
  rewrite Ek in Ek'. injection Ek' as <-.
  pose proof (kmax_le_64 c Hu Hb) as K64.
  assert (Hso : slope_ok c slope = true).
  { unfold cl_slope in Es. destruct (nth_res (cl_slopes_map l) i); cbn [bind] in Es; [|discriminate].
    apply nth_res_In in Es. rewrite forallb_forall in Ht. now apply Ht. }
  rewrite (cl_eval_of c cp l i key icpt slope ka Ek Ei Es), (cl_eval_of c cp l i key icpt slope kb Ek Ei Es).
  do 2 eexists. split; [reflexivity|]. split; [reflexivity|].
  rewrite !kdiff_id by (auto; lia).
  pose proof (lvl_struct_icpt _ _ _ Hl Ei) as Ri.
  destruct (fmul_to_i64_mono c slope (ka - key) (kb - key) Hso) as [A0 A1]; [lia|lia|].
  split; [apply sat_add_nonneg|].
  apply sat_add_mono; auto. apply fmul_to_i64_presat.
Qed.

(* the root line *)
Lemma croot_pos_eq c cp k :
  croot_pos c cp k
  = Z.min (sat_add (fmul_to_i64 c (cp_root_slope cp) (kdiff c k (cp_first_key cp))) (cp_root_intercept cp)) (cp_root_range cp).
Proof. reflexivity. Qed.

Theorem croot_pos_mono c cp ka kb :
  ksigned (c_kt c) = false -> kbits (c_kt c) <= 64 ->
  slope_ok c (cp_root_slope cp) = true -> 0 <= cp_first_key cp -> - 2 ^ 63 <= cp_root_intercept cp < 2 ^ 62 ->
  cp_first_key cp <= ka <= kb -> kb <= kmax (c_kt c) ->
  croot_pos c cp ka <= croot_pos c cp kb.
Proof.
  intros Hu Hb Hso Hf Hi Hab Hm. rewrite !croot_pos_eq.
  pose proof (kmax_le_64 c Hu Hb) as K64.
  rewrite !kdiff_id by (auto; lia).
  set (key := cp_first_key cp) in *. set (slope := cp_root_slope cp) in *.
  destruct (fmul_to_i64_mono c slope (ka - key) (kb - key) Hso) as [A0 A1]; [lia|lia|].
  apply Z.min_le_compat_r. apply sat_add_mono; auto. apply fmul_to_i64_presat.
Qed.

(* one evaluation step (segment value clamped by the next intercept), fixed segment *)
Theorem cstep_eval_between c cp l i k1 k2 k p1 p2 :
  ksigned (c_kt c) = false -> kbits (c_kt c) <= 64 ->
  forallb (slope_ok c) (cp_table cp) = true -> lvl_struct_ok l = true ->
  lvl_gap_ok l i k1 = true ->
  k1 <= k <= k2 -> k2 <= kmax (c_kt c) ->
  cstep_eval c cp l i k1 = Ok p1 -> cstep_eval c cp l i k2 = Ok p2 ->
  exists p, cstep_eval c cp l i k = Ok p /\ p1 <= p <= p2.
Proof.
  intros Hu Hb Ht Hl Hg Hk Hm E1 E2.
  assert (He : exists e, cl_eval c (cp_table cp) l i k1 = Ok e).
  { unfold cstep_eval in E1. destruct (cl_eval c (cp_table cp) l i k1) as [e|]; [now exists e|discriminate]. }
  destruct He as [e0 He].
  destruct (cl_eval_mono c cp l i k1 k1 k e0 Hu Hb Ht Hl Hg He) as (e1 & e & A1 & A & L1); [lia|lia|].
  destruct (cl_eval_mono c cp l i k1 k k2 e0 Hu Hb Ht Hl Hg He) as (e' & e2 & A' & A2 & L2); [lia|lia|].
  rewrite A in A'. injection A' as <-.
  unfold cstep_eval in *. rewrite A1 in E1. rewrite A2 in E2. rewrite A. cbn [bind] in *.
  destruct (cl_get_intercept l (i + 1)) as [nx|]; cbn [bind] in *; [|discriminate].
  injection E1 as <-. injection E2 as <-. eexists. split; [reflexivity|]. lia.
Qed.

Lemma cstep_eval_nonneg c cp l i k p : cstep_eval c cp l i k = Ok p -> 0 <= p.
Proof.
  unfold cstep_eval, cl_eval.
  destruct (nth_res (cl_slopes_map l) i); cbn [bind]; [|discriminate].
  destruct (nth_res (cp_table cp) a); cbn [bind]; [|discriminate].
  destruct (nth_res (cl_keys l) i); cbn [bind]; [|discriminate].
  destruct (cl_get_intercept l i); cbn [bind]; [|discriminate].
  destruct (cl_get_intercept l (i + 1)); cbn [bind]; [|discriminate].
  intros H. injection H as <-.
  assert (0 <= wrapU 64 a3) by (unfold wrapU; apply Z.mod_pos_bound; lia).
  match goal with |- 0 <= Z.min (if ?b then _ else _) _ => destruct b eqn:G end; lia.
Qed.

(* CmpStructBuild.v — the structural half of the C08 run-time certificate holds for every index
   compressed_build produces: cmp_struct_of_build.  Pieces: one CompressedLevel (lvl_struct_of_build),
   the loop over the levels, the invariant of cbuild_upper (all segments good, shape of the offsets,
   every level starts at the first key), the floating-point facts of CmpStructFp.v. *)
Require Import Base Fp PlaModel PlaSpec PlaComplete PlaSound GenLeaf IndexModel IndexProofs IdxFed
  CompressedModel CompressedProofs CmpCertDefs CmpStructDefs CmpStructSeg CmpStructFp.
From Coq Require Import ZifyBool Sorted.
From Flocq Require Import Core BinarySingleNaN.
Local Open Scope Z_scope.

(* ---------- 64-bit wrap arithmetic ---------- *)
Lemma wrapS64_id z : - 2 ^ 63 <= z < 2 ^ 63 -> wrapS 64 z = z.
Proof.
  intros H. unfold wrapS. change (64 - 1) with 63.
  rewrite Z.mod_small by (change (2 ^ 64) with (2 * 2 ^ 63); lia). lia.
Qed.

Lemma wrapS64_add_wrapU a b : wrapS 64 (a + wrapU 64 (b - a)) = wrapS 64 b.
Proof.
  unfold wrapS, wrapU. f_equal.
  replace (a + (b - a) mod 2 ^ 64 + 2 ^ (64 - 1)) with ((b - a) mod 2 ^ 64 + (a + 2 ^ (64 - 1))) by ring.
  rewrite Zplus_mod_idemp_l. f_equal. ring.
Qed.

(* ---------- one CompressedLevel ---------- *)
(* every raw intercept of the level is an int64 below 2^62 - 1 and the previous level is not huge *)
Lemma body_struct pls off : - 2 ^ 63 < pls <= 2 ^ 62 ->
  forall l prev, - 2 ^ 63 <= prev < 2 ^ 62 - 1 -> Forall (fun v => - 2 ^ 63 <= v < 2 ^ 62 - 1) l ->
  Forall (fun v => wrapS 64 (off + v) < 2 ^ 62)
    ((fix body (prev : Z) (l : list Z) : list Z :=
        match l with
        | [] => []
        | v :: t => wrapU 64 (clamp v (prev + 1) (pls - 1) - off) :: body v t
        end) prev l).
Proof.
  intros Hp. induction l as [|v t IH]; intros prev Hprev Hl; [constructor|].
  inversion Hl as [|v' l' Hv Ht]; subst. constructor; [|apply IH; assumption].
  rewrite wrapS64_add_wrapU.
  assert (Hc : - 2 ^ 63 <= clamp v (prev + 1) (pls - 1) < 2 ^ 62).
  { unfold clamp. destruct (v <? prev + 1); [lia|]. destruct (pls - 1 <? v); lia. }
  rewrite wrapS64_id by lia. lia.
Qed.

Theorem lvl_struct_of_build c segs icpts maps table pls lk l :
  clevel_build c segs icpts maps table pls lk = Ok l ->
  0 <= pls < 2 ^ 62 - 1 -> Forall (fun v => - 2 ^ 63 <= v < 2 ^ 62 - 1) icpts ->
  lvl_struct_ok l = true.
Proof.
  intros H Hp Hi. unfold clevel_build in H. destruct icpts as [|off rest]; [discriminate|].
  inversion Hi as [|o r Hoff Hrest]; subst.
  destruct (_ >? _) in H; [discriminate|].
  destruct (negb _) in H; [discriminate|].
  injection H as <-. unfold lvl_struct_ok. cbn [cl_vals cl_offset tl].
  apply forallb_forall. apply Forall_forall.
  set (M := wrapU 64 (pls - off + 2)).
  assert (HM1 : wrapS 64 (off + (M - 1)) = pls + 1).
  { unfold M, wrapS, wrapU.
    replace (off + ((pls - off + 2) mod 2 ^ 64 - 1) + 2 ^ (64 - 1)) with ((pls - off + 2) mod 2 ^ 64 + (off - 1 + 2 ^ (64 - 1))) by ring.
    rewrite Zplus_mod_idemp_l. replace (pls - off + 2 + (off - 1 + 2 ^ (64 - 1))) with (pls + 1 + 2 ^ (64 - 1)) by ring.
    change (64 - 1) with 63. rewrite Z.mod_small by (change (2 ^ 64) with (2 * 2 ^ 63); lia). lia. }
  assert (HM2 : wrapS 64 (off + (M - 2)) = pls).
  { unfold M, wrapS, wrapU.
    replace (off + ((pls - off + 2) mod 2 ^ 64 - 2) + 2 ^ (64 - 1)) with ((pls - off + 2) mod 2 ^ 64 + (off - 2 + 2 ^ (64 - 1))) by ring.
    rewrite Zplus_mod_idemp_l. replace (pls - off + 2 + (off - 2 + 2 ^ (64 - 1))) with (pls + 2 ^ (64 - 1)) by ring.
    change (64 - 1) with 63. rewrite Z.mod_small by (change (2 ^ 64) with (2 * 2 ^ 63); lia). lia. }
  constructor.
  - apply Z.ltb_lt. rewrite Z.add_0_r, wrapS64_id by lia. lia.
  - apply Forall_app. split.
    + pose proof (body_struct pls off ltac:(lia) rest off ltac:(lia) Hrest) as Hb.
      eapply Forall_impl; [|exact Hb]. cbn beta. intros v Hv. apply Z.ltb_lt. exact Hv.
    + apply Forall_app. split.
      * destruct (f64_is_zero _); constructor; [|constructor]. apply Z.ltb_lt. rewrite HM2. lia.
      * constructor; [|constructor]. apply Z.ltb_lt. rewrite HM1. lia.
Qed.

(* ---------- list helpers ---------- *)
Lemma Forall_firstn' {A} (P : A -> Prop) k : forall l, Forall P l -> Forall P (firstn k l).
Proof. induction k as [|k IH]; intros l H; [constructor|]. destruct l; [constructor|]. inversion H; subst. constructor; auto. Qed.
Lemma Forall_skipn' {A} (P : A -> Prop) k : forall l, Forall P l -> Forall P (skipn k l).
Proof. induction k as [|k IH]; intros l H; [exact H|]. destruct l; [constructor|]. inversion H; subst. cbn [skipn]. auto. Qed.
Lemma Forall_slice {A} (P : A -> Prop) l lo hi : Forall P l -> Forall P (slice l lo hi).
Proof. intros H. unfold slice. apply Forall_firstn', Forall_skipn'. exact H. Qed.
Lemma Forall_removelast' {A} (P : A -> Prop) (l : list A) : Forall P l -> Forall P (removelast l).
Proof. intros H. rewrite removelast_firstn_len. apply Forall_firstn'. exact H. Qed.
Lemma zlen_removelast' {A} (l : list A) : l <> [] -> zlen (removelast l) = zlen l - 1.
Proof.
  intros H. rewrite removelast_firstn_len. unfold zlen. rewrite firstn_length.
  destruct l; [contradiction|]. cbn [length]. lia.
Qed.
Lemma hd_removelast {A} (d : A) l : (2 <= length l)%nat -> hd d (removelast l) = hd d l.
Proof. destruct l as [|a [|b t]]; cbn [length]; try lia. intros _. reflexivity. Qed.

(* ---------- the loop over the levels ---------- *)
Definition pls_of (offs : list Z) (n i : Z) : Z :=
  if i =? 1 then n else nth (Z.to_nat (i - 1)) offs 0 - nth (Z.to_nat (i - 2)) offs 0.

Lemma clevels_struct c segs icpts maps table offs n lk : forall is_ lvls,
  clevels_build c is_ segs icpts maps table offs n lk = Ok lvls ->
  Forall (fun v => - 2 ^ 63 <= v < 2 ^ 62 - 1) icpts ->
  Forall (fun i => 0 <= pls_of offs n i < 2 ^ 62 - 1) is_ ->
  forallb lvl_struct_ok lvls = true.
Proof.
  induction is_ as [|i rest IH]; intros lvls H Hi His; cbn [clevels_build] in H.
  - injection H as <-. reflexivity.
  - inversion His as [|i' r' Hp Hr]; subst.
    destruct (clevel_build _ _ _ _ _ _ _) as [lv|e] eqn:E1; cbn [bind] in H; [|discriminate].
    destruct (clevels_build _ _ _ _ _ _ _ _ _) as [tl|e] eqn:E2; cbn [bind] in H; [|discriminate].
    injection H as <-. cbn [forallb]. rewrite (IH tl eq_refl Hi Hr), andb_true_r.
    apply (lvl_struct_of_build _ _ _ _ _ _ _ _ E1); [exact Hp|]. apply Forall_slice. exact Hi.
Qed.

(* ---------- more about the fed list ---------- *)
Lemma fed_spec_hd kt x0 tl : hd (0, 0) (fed_spec kt (x0 :: tl)) = (x0, 0).
Proof.
  unfold fed_spec. cbn [W]. unfold pt1. replace (x0 =? x0 - 1) with false by lia. reflexivity.
Qed.

Lemma W_len kt : forall l prev nx i, zlen (W kt prev l nx i) <= zlen l.
Proof.
  induction l as [|x tl IH]; intros prev nx i; [cbn; lia|]. cbn [W]. rewrite zlen_app, zlen_cons.
  specialize (IH x nx (i + 1)).
  assert (zlen (pt1 kt prev x (hd nx tl) i) <= 1).
  { unfold pt1. destruct (x =? prev); [destruct (x + 1 <? hd nx tl)|]; cbn; lia. }
  lia.
Qed.

Lemma fed_spec_len kt d : d <> [] -> 1 <= zlen (fed_spec kt d) <= zlen d + 1.
Proof.
  intros Hne. unfold fed_spec. destruct d as [|x0 tl]; [contradiction|].
  rewrite zlen_app. pose proof (W_len kt (x0 :: tl) (x0 - 1) (last (x0 :: tl) 0) 0).
  pose proof (zlen_ge0 (W kt (x0 - 1) (x0 :: tl) (last (x0 :: tl) 0) 0)).
  change (zlen [(wrapK kt (last (x0 :: tl) 0 + 1), zlen (x0 :: tl))]) with 1. lia.
Qed.

Lemma zlen_concat_ge {A} (g : list (list A)) : Forall (fun b => b <> []) g -> zlen g <= zlen (concat g).
Proof.
  induction g as [|b t IH]; intros H; [cbn; lia|]. inversion H as [|b' t' Hb Ht]; subst.
  cbn [concat]. rewrite zlen_app, zlen_cons. specialize (IH Ht).
  destruct b; [contradiction|]. rewrite zlen_cons. pose proof (zlen_ge0 b). lia.
Qed.

(* ---------- one segmentation call, as the compressed builder uses it ---------- *)
(* unsigned key type of at most 64 bits *)
Definition ukt (kt : ktype) : Prop := ksigned kt = false /\ 1 <= kbits kt <= 64.

Lemma mseg_call_facts kt eps keys segs fed count x0 tl :
  ukt kt -> keys = x0 :: tl -> Forall (fun x => 0 <= x < 2 ^ 64) keys ->
  zlen keys + eps < 2 ^ 64 - 1 ->
  fed = fed_spec kt keys ->
  (exists g, concat g = fed /\ Forall (fun b => b <> []) g /\ Forall2 (seg_relS eps) segs g /\ zlen g = count /\ 0 <= eps) ->
  Forall (cs_ok (zlen keys + eps)) segs /\ zlen segs = count /\ 1 <= count <= zlen keys + 1 /\
  c_first (hd (mkCseg (0,0) (0,0) (0,0) (0,0) 0) segs) = x0.
Proof.
  intros [Hs Hb] Hk Hr Hn Hfed (g & G1 & G2 & G3 & G4 & Heps).
  assert (Hne : keys <> []) by (rewrite Hk; discriminate).
  pose proof (fed_spec_ok kt keys Hs ltac:(lia) Hr) as Hok. rewrite <- Hfed, <- G1 in Hok.
  destruct (segs_good_of_blocks eps (zlen keys) segs g Heps Hn G2 Hok G3) as (A & B & C).
  pose proof (fed_spec_len kt keys Hne) as Hl. rewrite <- Hfed, <- G1 in Hl.
  pose proof (zlen_concat_ge g G2) as Hc.
  assert (Hg1 : 1 <= zlen g).
  { destruct g; [cbn in Hl; lia|]. rewrite zlen_cons. pose proof (zlen_ge0 g). lia. }
  split; [exact A|]. split; [lia|]. split; [lia|].
  destruct segs as [|c0 rest]; [rewrite <- B in Hg1; cbn in Hg1; lia|]. cbn [hd].
  rewrite (C c0 rest eq_refl), G1, Hfed, Hk, fed_spec_hd. reflexivity.
Qed.

Definition cs0 : cseg := mkCseg (0,0) (0,0) (0,0) (0,0) 0.

Lemma cs_ok_weaken Y Y' cs : Y <= Y' -> cs_ok Y cs -> cs_ok Y' cs.
Proof. intros H (A & B & C). split; [exact (seg_good_weaken Y Y' cs H A)|]. split; [exact B | lia]. Qed.

Lemma drop_facts c Y segs cnt new cnt' x0 :
  drop_sentinel_segment c segs cnt = (new, cnt') ->
  Forall (cs_ok Y) segs -> zlen segs = cnt -> 1 <= cnt -> c_first (hd cs0 segs) = x0 ->
  Forall (cs_ok Y) new /\ zlen new = cnt' /\ 1 <= cnt' <= cnt /\ c_first (hd cs0 new) = x0.
Proof.
  unfold drop_sentinel_segment. intros H Hg Hl Hc Hf.
  destruct ((cnt >? 1) && _) eqn:E in H; injection H as <- <-.
  - assert (Hc2 : 1 < cnt) by lia.
    assert (Hne : segs <> []) by (intros ->; cbn in Hl; lia).
    split; [apply Forall_removelast'; exact Hg|]. split; [rewrite zlen_removelast' by exact Hne; lia|].
    split; [lia|]. rewrite hd_removelast; [exact Hf|]. unfold zlen in Hl. lia.
  - repeat split; try assumption; lia.
Qed.

Definition diffs_ok (D : Z) (offs : list Z) : Prop :=
  forall k, (S k < length offs)%nat -> 0 <= nth (S k) offs 0 - nth k offs 0 <= D.

Lemma diffs_ok_mono D D' offs : D <= D' -> diffs_ok D offs -> diffs_ok D' offs.
Proof. intros H Hd k Hk. specialize (Hd k Hk). lia. Qed.

Lemma diffs_ok_snoc D offs v : offs <> [] -> diffs_ok D offs -> 0 <= v - last offs 0 <= D -> diffs_ok D (offs ++ [v]).
Proof.
  intros Hne Hd Hv k Hk. rewrite app_length in Hk. cbn [length] in Hk.
  destruct (Nat.eq_dec (S k) (length offs)) as [E|N].
  - rewrite app_nth2 by lia. replace (S k - length offs)%nat with O by lia. cbn [nth].
    rewrite app_nth1 by lia.
    replace (nth k offs 0) with (last offs 0); [exact Hv|].
    rewrite (app_removelast_last 0 Hne) at 2. rewrite app_nth2; rewrite removelast_firstn_len, firstn_length; [|lia].
    replace (k - Nat.min (Nat.pred (length offs)) (length offs))%nat with O by lia. reflexivity.
  - rewrite !app_nth1 by lia. apply Hd. lia.
Qed.

Lemma skipn_nth_cons {A} (d : A) : forall l k, (k < length l)%nat -> skipn k l = nth k l d :: skipn (S k) l.
Proof.
  induction l as [|a t IH]; intros k Hk; [cbn in Hk; lia|]. destruct k as [|k]; [reflexivity|].
  cbn [length] in Hk. cbn [skipn nth]. rewrite (IH k) by lia. reflexivity.
Qed.

(* the state of cbuild_upper *)
Definition cinv (Y D x0 : Z) (segs : list cseg) (offs : list Z) (last_n : Z) : Prop :=
  Forall (cs_ok Y) segs /\
  exists pre a, offs = pre ++ [a; a + last_n] /\ zlen segs = a + last_n /\ 0 <= a /\ 1 <= last_n <= D /\
    c_first (nth (Z.to_nat a) segs cs0) = x0 /\ diffs_ok D offs.

Lemma cinv_mono Y D D' x0 segs offs ln : D <= D' -> cinv Y D x0 segs offs ln -> cinv Y D' x0 segs offs ln.
Proof.
  intros H (A & pre & a & B1 & B2 & B3 & B4 & B5 & B6). split; [exact A|]. exists pre, a.
  split; [exact B1|]. split; [exact B2|]. split; [exact B3|]. split; [lia|]. split; [exact B5|].
  exact (diffs_ok_mono D D' offs H B6).
Qed.

Lemma nth_second_last (pre : list Z) a b : nth (length (pre ++ [a; b]) - 2) (pre ++ [a; b]) 0 = a.
Proof.
  rewrite app_length. cbn [length]. replace (length pre + 2 - 2)%nat with (length pre) by lia.
  rewrite app_nth2 by lia. replace (length pre - length pre)%nat with O by lia. reflexivity.
Qed.
Lemma last_app2 (pre : list Z) a b : last (pre ++ [a; b]) 0 = b.
Proof. replace (pre ++ [a; b]) with ((pre ++ [a]) ++ [b]) by (rewrite <- app_assoc; reflexivity). apply last_last. Qed.

Lemma cbuild_upper_inv c Y x0 : ukt (c_kt c) -> Y < 2 ^ 64 - 1 ->
  forall fuel segs offs last_n D segs' offs',
  cinv Y D x0 segs offs last_n ->
  D + Z.of_nat fuel + c_epsrec c <= Y ->
  cbuild_upper c fuel segs offs last_n = Ok (segs', offs') ->
  exists ln', cinv Y (D + Z.of_nat fuel) x0 segs' offs' ln'.
Proof.
  intros Hk HY. induction fuel as [|f IH]; intros segs offs last_n D segs' offs' Hinv HD H.
  - cbn [cbuild_upper] in H. destruct (_ || _) in H; [|discriminate]. injection H as <- <-.
    exists last_n. eapply cinv_mono; [|exact Hinv]. lia.
  - cbn [cbuild_upper] in H. destruct ((c_epsrec c =? 0) || (last_n <=? 1)) eqn:Et.
    { injection H as <- <-. exists last_n. eapply cinv_mono; [|exact Hinv]. lia. }
    destruct Hinv as (A & pre & a & B1 & B2 & B3 & B4 & B5 & B6).
    rewrite B1, nth_second_last, last_app2 in H. rewrite <- B1 in H.
    set (keys := map c_first (firstn (Z.to_nat last_n) (skipn (Z.to_nat a) segs))) in *.
    assert (Hlen : (Z.to_nat a < length segs)%nat) by (unfold zlen in B2; lia).
    assert (Hzk : zlen keys = last_n).
    { unfold keys. unfold zlen in *. rewrite map_length, firstn_length, skipn_length. lia. }
    assert (Hkx : exists tl, keys = x0 :: tl).
    { unfold keys. rewrite (skipn_nth_cons cs0 segs _ Hlen).
      destruct (Z.to_nat last_n) as [|m] eqn:Em; [lia|]. cbn [firstn map]. rewrite B5. eexists. reflexivity. }
    destruct Hkx as [tl Hkx].
    assert (Hkr : Forall (fun x => 0 <= x < 2 ^ 64) keys).
    { unfold keys. apply Forall_map. apply Forall_firstn', Forall_skipn'.
      eapply Forall_impl; [|exact A]. cbn beta. intros cs (_ & Hc & _). exact Hc. }
    clearbody keys.
    destruct (make_segmentation (c_kt c) last_n (c_epsrec c) keys) as [[[new0 fed] cnt0]|e] eqn:Em;
      cbn [bind] in H; [|discriminate].
    destruct (drop_sentinel_segment c new0 cnt0) as [new cnt] eqn:Ed.
    rewrite <- Hzk in Em.
    pose proof (make_segmentation_fed _ _ _ _ _ _ Em) as Hfed.
    assert (Hb1 : zlen keys + c_epsrec c < 2 ^ 64 - 1). { clear - Hzk B4 HD HY. lia. }
    pose proof (mseg_blocksS _ _ _ _ _ _ _ Em ltac:(lia) Hb1) as Hg.
    destruct (mseg_call_facts _ _ _ _ _ _ x0 tl Hk Hkx Hkr Hb1 Hfed Hg) as (F1 & F2 & F3 & F4).
    assert (F1' : Forall (cs_ok Y) new0).
    { eapply Forall_impl; [|exact F1]. intros cs. apply cs_ok_weaken. lia. }
    destruct (drop_facts c Y new0 cnt0 new cnt x0 Ed F1' F2 ltac:(lia) F4) as (G1 & G2 & G3 & G4).
    replace (D + Z.of_nat (S f)) with (D + 1 + Z.of_nat f) by lia.
    apply (IH (segs ++ new) (offs ++ [a + last_n + cnt]) cnt (D + 1) segs' offs'); [|lia|exact H].
    split; [apply Forall_app; split; assumption|].
    exists (pre ++ [a]), (a + last_n).
    split; [rewrite B1, <- !app_assoc; reflexivity|].
    split; [rewrite zlen_app; lia|]. split; [lia|]. split; [lia|]. split.
    + rewrite app_nth2 by (unfold zlen in B2; lia).
      replace (Z.to_nat (a + last_n) - length segs)%nat with O by (unfold zlen in B2; lia).
      destruct new; [cbn in G2; lia | exact G4].
    + apply diffs_ok_snoc; [rewrite B1; destruct pre; discriminate | exact (diffs_ok_mono D (D + 1) offs ltac:(lia) B6) |].
      rewrite B1, last_app2. lia.
Qed.

(* ---------- the whole build ---------- *)
Lemma nth_res_nth {A} (l : list A) i a d : nth_res l i = Ok a -> a = nth (Z.to_nat i) l d /\ In a l.
Proof.
  unfold nth_res. destruct (i <? 0); [discriminate|].
  destruct (nth_error l (Z.to_nat i)) eqn:E; [|discriminate]. intros H. injection H as <-.
  split; [symmetry; apply nth_error_nth; exact E | eapply nth_error_In; exact E].
Qed.

(* side conditions on the configuration and the data *)
Definition struct_pre (c : cfg) (data : list Z) : Prop :=
  ukt (c_kt c) /\ 1 <= c_par c /\ 0 <= c_epsrec c /\ data <> [] /\
  Forall (fun x => in_ktype (c_kt c) x = true) data /\
  zlen data + c_eps c <= 2 ^ 62 - 2 /\ 2 * zlen data + 3 + c_epsrec c <= 2 ^ 62 - 2.

Definition YB : Z := 2 ^ 62 - 2.

(* what the root of the built object is *)
Definition root_spec (c : cfg) (data : list Z) (segs : list cseg) (offs : list Z) (rs : f64) (ri : Z) : Prop :=
  if c_epsrec c >? 0 then
    exists cs, nth_res segs (nth (length offs - 2) offs 0) = Ok cs /\
      rs = (if one_point cs then f64_zero else to_floating c (slope_ld (fst (cseg_line cs (hd 0 data))))) /\
      ri = wrapS 64 (snd (cseg_line cs (hd 0 data)))
  else rs = f64_zero /\ ri = 0.

Definition levels_is (c : cfg) (offs : list Z) : list Z :=
  if c_epsrec c =? 0 then [1] else rev (zseq 1 (Z.to_nat (zlen offs - 1 - 1))).

Lemma build_facts c data cp : struct_pre c data -> compressed_build c data = Ok cp ->
  exists segs offs ln table maps icpts,
    cinv YB (2 * zlen data + 3) (hd 0 data) segs offs ln /\
    merge_slopes c segs = (table, maps, icpts) /\
    cp_n cp = zlen data /\ cp_first_key cp = hd 0 data /\ cp_table cp = table /\
    root_spec c data segs offs (cp_root_slope cp) (cp_root_intercept cp) /\
    clevels_build c (levels_is c offs) segs icpts maps table offs (zlen data) (last_z data) = Ok (cp_levels cp).
Proof.
  intros (Hk & Hpar & Her & Hne & Hin & Hb1 & Hb2) H. unfold compressed_build in H.
  assert (Hn : 1 <= zlen data) by (destruct data; [contradiction|]; rewrite zlen_cons; pose proof (zlen_ge0 data); lia).
  replace (zlen data =? 0) with false in H by lia.
  destruct (last_z data =? sentinel c); [discriminate|].
  destruct (make_segmentation_par _ _ _ _ _ _) as [[[segs00 fed] c00]|e] eqn:Em; cbn [bind] in H; [|discriminate].
  destruct (drop_sentinel_segment c segs00 c00) as [segs0 c0] eqn:Ed.
  destruct (cbuild_upper _ _ _ _ _) as [[segs offs]|e] eqn:Eu; cbn [bind] in H; [|discriminate].
  destruct (merge_slopes c segs) as [[table maps] icpts] eqn:Ems.
  pose proof (make_segmentation_par_fed _ _ _ _ _ _ _ _ Em Hpar) as Hfed.
  pose proof (mseg_par_blocksS _ _ _ _ _ _ _ _ _ Em Hpar ltac:(lia) ltac:(lia)) as Hg.
  destruct data as [|x0 tl] eqn:Edata; [contradiction|]. rewrite <- Edata in *.
  assert (Hr : Forall (fun x => 0 <= x < 2 ^ 64) data).
  { eapply Forall_impl; [|exact Hin]. cbn beta. intros x Hx. destruct Hk as [Hs Hkb].
    unfold in_ktype, kmin, kmax in Hx. rewrite Hs in Hx.
    assert (2 ^ kbits (c_kt c) <= 2 ^ 64) by (apply Z.pow_le_mono_r; lia). lia. }
  assert (Hb1' : zlen data + c_eps c < 2 ^ 64 - 1) by (clear - Hb1; lia).
  destruct (mseg_call_facts _ _ _ _ _ _ x0 tl Hk Edata Hr Hb1' Hfed Hg) as (F1 & F2 & F3 & F4).
  assert (F1' : Forall (cs_ok YB) segs00).
  { eapply Forall_impl; [|exact F1]. intros cs. apply cs_ok_weaken. unfold YB. lia. }
  destruct (drop_facts c YB segs00 c00 segs0 c0 x0 Ed F1' F2 ltac:(lia) F4) as (G1 & G2 & G3 & G4).
  assert (Hinv0 : cinv YB (zlen data + 1) x0 segs0 [0; c0] c0).
  { split; [exact G1|]. exists [], 0. split; [reflexivity|]. split; [lia|]. split; [lia|]. split; [lia|]. split.
    - destruct segs0; [cbn in G2; lia | exact G4].
    - intros k Hk'. cbn [length] in Hk'. assert (k = O) by lia. subst k. cbn [nth]. lia. }
  destruct (cbuild_upper_inv c YB x0 Hk ltac:(unfold YB; lia) (length data + 2)%nat _ _ _ _ _ _ Hinv0 ltac:(clear - Hb2; unfold YB, zlen in *; lia) Eu) as (ln & Hinv).
  exists segs, offs, ln, table, maps, icpts.
  split; [replace (hd 0 data) with x0 by (rewrite Edata; reflexivity); eapply cinv_mono; [|exact Hinv]; clear; unfold zlen; lia|].
  split; [exact Ems|].
  destruct (c_epsrec c >? 0) eqn:Eer.
  - destruct (nth_res segs _) as [cs|e] eqn:Ecs; cbn [bind] in H; [|discriminate].
    destruct (cseg_line cs (hd 0 data)) as [sl icpt] eqn:Ecl. cbn [bind] in H.
    destruct (clevels_build _ _ _ _ _ _ _ _ _) as [lvls|e] eqn:Elv; cbn [bind] in H; [|discriminate].
    injection H as <-. cbn [cp_n cp_first_key cp_table cp_root_slope cp_root_intercept cp_levels].
    repeat split; try reflexivity; try exact Elv.
    unfold root_spec. rewrite Eer. exists cs. rewrite Ecl. split; [exact Ecs|]. split; reflexivity.
  - cbn [bind] in H.
    destruct (clevels_build _ _ _ _ _ _ _ _ _) as [lvls|e] eqn:Elv; cbn [bind] in H; [|discriminate].
    injection H as <-. cbn [cp_n cp_first_key cp_table cp_root_slope cp_root_intercept cp_levels].
    repeat split; try reflexivity; try exact Elv.
    unfold root_spec. rewrite Eer. split; reflexivity.
Qed.

(* ---------- consequences of the invariant ---------- *)
Lemma build_fp c data segs offs ln table maps icpts :
  cinv YB (2 * zlen data + 3) (hd 0 data) segs offs ln -> merge_slopes c segs = (table, maps, icpts) ->
  Forall (tbl_ok c) table /\ Forall (fun v => - 2 ^ 63 <= v < 2 ^ 62 - 1) icpts.
Proof.
  intros (A & _) Hm.
  assert (Hg : Forall (seg_good YB) segs) by (eapply Forall_impl; [|exact A]; intros cs (Hc & _); exact Hc).
  destruct (merge_slopes_ok c YB segs table maps icpts ltac:(unfold YB; lia) Hg Hm) as (T & I & _).
  split; [exact T|]. eapply Forall_impl; [|exact I]. cbn beta. unfold YB. intros v Hv. lia.
Qed.

Lemma root_cs (data : list Z) segs offs ln cs :
  cinv YB (2 * zlen data + 3) (hd 0 data) segs offs ln ->
  nth_res segs (nth (length offs - 2) offs 0) = Ok cs ->
  cs_ok YB cs /\ c_first cs = hd 0 data.
Proof.
  intros (A & pre & a & B1 & B2 & B3 & B4 & B5 & B6) H.
  rewrite B1, nth_second_last in H. destruct (nth_res_nth segs a cs cs0 H) as [E Hin].
  rewrite Forall_forall in A. split; [apply A; exact Hin | rewrite E; exact B5].
Qed.

Lemma levels_pls c data segs offs ln :
  1 <= zlen data -> 2 * zlen data + 3 < 2 ^ 62 - 1 ->
  cinv YB (2 * zlen data + 3) (hd 0 data) segs offs ln ->
  Forall (fun i => 0 <= pls_of offs (zlen data) i < 2 ^ 62 - 1) (levels_is c offs).
Proof.
  intros Hn Hb (_ & pre & a & B1 & _ & _ & _ & _ & B6). unfold levels_is.
  destruct (c_epsrec c =? 0).
  - constructor; [|constructor]. unfold pls_of. cbn. lia.
  - apply Forall_rev. eapply Forall_impl; [|apply PlaComplete.zseq_range]. cbn beta. intros i Hi.
    unfold pls_of. destruct (i =? 1) eqn:E1; [lia|].
    assert (Hlen : (Z.to_nat (i - 1) < length offs)%nat) by (unfold zlen in Hi; lia).
    specialize (B6 (Z.to_nat (i - 2))). replace (S (Z.to_nat (i - 2))) with (Z.to_nat (i - 1)) in B6 by lia.
    specialize (B6 Hlen). lia.
Qed.

(* ---------- the conjuncts of cmp_struct_b ---------- *)
Theorem struct_n c data cp : struct_pre c data -> compressed_build c data = Ok cp -> cp_n cp = zlen data.
Proof. intros Hp H. destruct (build_facts c data cp Hp H) as (segs & offs & ln & table & maps & icpts & _ & _ & E & _). exact E. Qed.

Theorem struct_first_key c data cp : struct_pre c data -> compressed_build c data = Ok cp ->
  0 <= cp_first_key cp <= kmax (c_kt c).
Proof.
  intros Hp H. destruct (build_facts c data cp Hp H) as (segs & offs & ln & table & maps & icpts & _ & _ & _ & E & _).
  rewrite E. destruct Hp as ([Hs Hb] & _ & _ & Hne & Hin & _).
  destruct data as [|x0 tl]; [contradiction|]. cbn [hd]. inversion Hin as [|x l Hx _]; subst.
  unfold in_ktype, kmin in Hx. rewrite Hs in Hx. lia.
Qed.

Theorem struct_root_intercept c data cp : struct_pre c data -> compressed_build c data = Ok cp ->
  - 2 ^ 63 <= cp_root_intercept cp < 2 ^ 62.
Proof.
  intros Hp H. destruct (build_facts c data cp Hp H) as (segs & offs & ln & table & maps & icpts & Hinv & _ & _ & _ & _ & Hroot & _).
  unfold root_spec in Hroot. destruct (c_epsrec c >? 0).
  - destruct Hroot as (cs & Ecs & _ & ->). destruct (root_cs data segs offs ln cs Hinv Ecs) as [(_ & _ & Hi) Hf].
    rewrite <- Hf. unfold YB in Hi. rewrite wrapS64_id by lia. lia.
  - destruct Hroot as [_ ->]. lia.
Qed.

Theorem struct_root_slope_ok c data cp : struct_pre c data -> compressed_build c data = Ok cp ->
  slope_ok c (cp_root_slope cp) = true.
Proof.
  intros Hp H. destruct (build_facts c data cp Hp H) as (segs & offs & ln & table & maps & icpts & Hinv & _ & _ & _ & _ & Hroot & _).
  unfold root_spec in Hroot. destruct (c_epsrec c >? 0).
  - destruct Hroot as (cs & Ecs & -> & _). destruct (root_cs data segs offs ln cs Hinv Ecs) as [(Hg & _ & _) _].
    destruct (one_point cs) eqn:Eop; [apply (tbl_ok_zero c)|].
    unfold cseg_line. rewrite Eop. cbn [fst].
    destruct Hg as (_ & _ & _ & Hg). destruct (Hg Eop) as (_ & Hdx & _ & Hdy & _).
    destruct (psub (c_r3 cs) (c_r1 cs)) as [dx dy]. cbn [fst snd] in Hdx, Hdy.
    apply (root_slope_ok c dx dy Hdx Hdy).
  - destruct Hroot as [-> _]. apply (tbl_ok_zero c).
Qed.

Theorem struct_table_slopes_ok c data cp : struct_pre c data -> compressed_build c data = Ok cp ->
  forallb (slope_ok c) (cp_table cp) = true.
Proof.
  intros Hp H. destruct (build_facts c data cp Hp H) as (segs & offs & ln & table & maps & icpts & Hinv & Hm & _ & _ & -> & _).
  destruct (build_fp c data segs offs ln table maps icpts Hinv Hm) as [T _].
  apply forallb_forall. rewrite Forall_forall in T. intros s Hs. apply (T s Hs).
Qed.

Theorem struct_level_intercepts c data cp : struct_pre c data -> compressed_build c data = Ok cp ->
  forallb lvl_struct_ok (cp_levels cp) = true.
Proof.
  intros Hp H. destruct (build_facts c data cp Hp H) as (segs & offs & ln & table & maps & icpts & Hinv & Hm & _ & _ & _ & _ & Hl).
  destruct (build_fp c data segs offs ln table maps icpts Hinv Hm) as [_ I].
  destruct Hp as (_ & _ & Her & Hne & _ & _ & Hb2).
  assert (Hn : 1 <= zlen data) by (destruct data; [contradiction|]; rewrite zlen_cons; pose proof (zlen_ge0 data); lia).
  apply (clevels_struct _ _ _ _ _ _ _ _ _ _ Hl I).
  apply (levels_pls c data segs offs ln Hn ltac:(lia) Hinv).
Qed.

Theorem cmp_struct_of_build : forall c data cp,
  struct_pre c data -> compressed_build c data = Ok cp -> cmp_struct_b c data cp = true.
Proof.
  intros c data cp Hp H. unfold cmp_struct_b.
  rewrite (struct_n c data cp Hp H), Z.eqb_refl.
  pose proof (struct_first_key c data cp Hp H) as Hk. pose proof (struct_root_intercept c data cp Hp H) as Hr.
  rewrite (struct_root_slope_ok c data cp Hp H), (struct_table_slopes_ok c data cp Hp H),
    (struct_level_intercepts c data cp Hp H).
  replace (0 <=? cp_first_key cp) with true by lia. replace (cp_first_key cp <=? kmax (c_kt c)) with true by lia.
  replace (- 2 ^ 63 <=? cp_root_intercept cp) with true by lia. replace (cp_root_intercept cp <? 2 ^ 62) with true by lia.
  reflexivity.
Qed.

(* the same statement under the side conditions used by the other end-to-end theorems of the project
   (sortedness and the sentinel condition are not needed for the structural half) *)
Corollary cmp_struct_of_build_std : forall c data cp,
  ksigned (c_kt c) = false -> In (kbits (c_kt c)) [8; 16; 32; 64] ->
  1 <= c_eps c -> 0 <= c_epsrec c -> 1 <= c_par c <= 20 ->
  data <> [] -> sortedb data = true -> Forall (fun x => in_ktype (c_kt c) x = true) data ->
  last_z data < sentinel c ->
  zlen data + c_eps c <= 2 ^ 32 - 1 -> zlen data + 1 + c_epsrec c <= 2 ^ 32 - 1 ->
  compressed_build c data = Ok cp -> cmp_struct_b c data cp = true.
Proof.
  intros c data cp Hs Hb He Her Hpar Hne _ Hin _ B1 B2 H.
  apply (cmp_struct_of_build c data cp); [|exact H].
  pose proof (zlen_ge0 data) as Hz.
  split; [split; [exact Hs | cbn in Hb; lia]|]. split; [lia|]. split; [exact Her|]. split; [exact Hne|].
  split; [exact Hin|]. split; lia.
Qed.

Print Assumptions cmp_struct_of_build.
Print Assumptions cmp_struct_of_build_std.

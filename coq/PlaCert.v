(* PlaCert.v — soundness of the two certificate checkers used by the run-time judge
   (line_ok_b: a feasible line; cert4_b: a four-point infeasibility certificate),
   and hereditary-ness of `feasible` for contiguous sub-blocks. *)
Require Import Base PlaModel PlaSpec.
Local Open Scope Z_scope.

(* ---------- boolean / Prop reflection of the band test ---------- *)

Lemma qline_in_band_b_true : forall eps an ad bn bd p,
  qline_in_band_b eps an ad bn bd p = true -> qline_in_band eps an ad bn bd p.
Proof.
  intros eps an ad bn bd [x y] H. unfold qline_in_band_b in H. unfold qline_in_band.
  apply andb_prop in H. destruct H as [H1 H2].
  apply Z.leb_le in H1. apply Z.leb_le in H2. split; assumption.
Qed.

Lemma qline_in_band_b_complete : forall eps an ad bn bd p,
  qline_in_band eps an ad bn bd p -> qline_in_band_b eps an ad bn bd p = true.
Proof.
  intros eps an ad bn bd [x y] H. unfold qline_in_band in H. unfold qline_in_band_b.
  destruct H as [H1 H2]. apply andb_true_intro. split; apply Z.leb_le; assumption.
Qed.

Theorem line_ok_b_sound : forall eps an ad bn bd pts,
  line_ok_b eps an ad bn bd pts = true -> feasible eps pts.
Proof.
  intros eps an ad bn bd pts H. unfold line_ok_b in H.
  apply andb_prop in H. destruct H as [H Hall].
  apply andb_prop in H. destruct H as [Had Hbd].
  apply Z.ltb_lt in Had. apply Z.ltb_lt in Hbd.
  exists an, ad, bn, bd. split; [assumption|]. split; [assumption|].
  apply Forall_forall. intros p Hp.
  rewrite forallb_forall in Hall. apply qline_in_band_b_true. apply Hall. exact Hp.
Qed.

(* the checker accepts every feasible line: the judge loses nothing by using it *)
Theorem line_ok_b_complete : forall eps an ad bn bd pts,
  0 < ad -> 0 < bd -> Forall (qline_in_band eps an ad bn bd) pts ->
  line_ok_b eps an ad bn bd pts = true.
Proof.
  intros eps an ad bn bd pts Had Hbd Hall. unfold line_ok_b.
  apply andb_true_intro. split.
  - apply andb_true_intro. split; apply Z.ltb_lt; assumption.
  - apply forallb_forall. intros p Hp. apply qline_in_band_b_complete.
    rewrite Forall_forall in Hall. apply Hall. exact Hp.
Qed.

(* ---------- pure integer arithmetic behind cert4 ---------- *)

(* value at xi is <= hi, value at xj is >= lo: the slope an/ad is >= (lo - hi)/(xj - xi) *)
Lemma slope_lower_bound : forall an ad bn bd xi xj hi lo,
  0 < bd ->
  an * xi * bd + bn * ad <= hi * ad * bd ->
  lo * ad * bd <= an * xj * bd + bn * ad ->
  (lo - hi) * ad <= an * (xj - xi).
Proof.
  intros an ad bn bd xi xj hi lo Hbd H1 H2.
  apply (Z.mul_le_mono_pos_r _ _ bd Hbd).
  replace ((lo - hi) * ad * bd) with (lo * ad * bd - hi * ad * bd) by ring.
  replace (an * (xj - xi) * bd) with ((an * xj * bd + bn * ad) - (an * xi * bd + bn * ad)) by ring.
  lia.
Qed.

(* value at xk is >= lo, value at xl is <= hi: the slope an/ad is <= (hi - lo)/(xl - xk) *)
Lemma slope_upper_bound : forall an ad bn bd xk xl hi lo,
  0 < bd ->
  lo * ad * bd <= an * xk * bd + bn * ad ->
  an * xl * bd + bn * ad <= hi * ad * bd ->
  an * (xl - xk) <= (hi - lo) * ad.
Proof.
  intros an ad bn bd xk xl hi lo Hbd H1 H2.
  apply (Z.mul_le_mono_pos_r _ _ bd Hbd).
  replace ((hi - lo) * ad * bd) with (hi * ad * bd - lo * ad * bd) by ring.
  replace (an * (xl - xk) * bd) with ((an * xl * bd + bn * ad) - (an * xk * bd + bn * ad)) by ring.
  lia.
Qed.

Lemma slopes_compare : forall an ad dij dkl L U,
  0 < ad -> 0 < dij -> 0 < dkl ->
  L * ad <= an * dij ->
  an * dkl <= U * ad ->
  L * dkl <= U * dij.
Proof.
  intros an ad dij dkl L U Had Hij Hkl H1 H2.
  apply (Z.mul_le_mono_pos_r _ _ ad Had).
  assert (E1 : L * ad * dkl <= an * dij * dkl).
  { apply Z.mul_le_mono_nonneg_r; lia. }
  assert (E2 : an * dkl * dij <= U * ad * dij).
  { apply Z.mul_le_mono_nonneg_r; lia. }
  replace (L * dkl * ad) with (L * ad * dkl) by ring.
  replace (U * dij * ad) with (U * ad * dij) by ring.
  replace (an * dij * dkl) with (an * dkl * dij) in E1 by ring.
  lia.
Qed.

(* the four-point obstruction, with the band values abstracted *)
Lemma four_point_obstruction : forall an ad bn bd xi xj xk xl hi_i lo_j lo_k hi_l,
  0 < ad -> 0 < bd -> xi < xj -> xk < xl ->
  an * xi * bd + bn * ad <= hi_i * ad * bd ->
  lo_j * ad * bd <= an * xj * bd + bn * ad ->
  lo_k * ad * bd <= an * xk * bd + bn * ad ->
  an * xl * bd + bn * ad <= hi_l * ad * bd ->
  (lo_j - hi_i) * (xl - xk) <= (hi_l - lo_k) * (xj - xi).
Proof.
  intros an ad bn bd xi xj xk xl hi_i lo_j lo_k hi_l Had Hbd Hij Hkl Hi Hj Hk Hl.
  apply (slopes_compare an ad (xj - xi) (xl - xk)); try lia.
  - apply (slope_lower_bound an ad bn bd xi xj hi_i lo_j Hbd Hi Hj).
  - apply (slope_upper_bound an ad bn bd xk xl hi_l lo_k Hbd Hk Hl).
Qed.

Theorem cert4_b_sound : forall eps pi pj pk pl pts,
  cert4_b eps pi pj pk pl = true ->
  In pi pts -> In pj pts -> In pk pts -> In pl pts -> ~ feasible eps pts.
Proof.
  intros eps [xi yi] [xj yj] [xk yk] [xl yl] pts Hc Ii Ij Ik Il Hf.
  unfold cert4_b in Hc.
  apply andb_prop in Hc. destruct Hc as [Hc Hlt].
  apply andb_prop in Hc. destruct Hc as [Hij Hkl].
  apply Z.ltb_lt in Hij. apply Z.ltb_lt in Hkl. apply Z.ltb_lt in Hlt.
  destruct Hf as (an & ad & bn & bd & Had & Hbd & Hall).
  rewrite Forall_forall in Hall.
  pose proof (Hall _ Ii) as Qi. pose proof (Hall _ Ij) as Qj.
  pose proof (Hall _ Ik) as Qk. pose proof (Hall _ Il) as Ql.
  unfold qline_in_band in Qi, Qj, Qk, Ql.
  destruct Qi as [_ Qi]. destruct Qj as [Qj _]. destruct Qk as [Qk _]. destruct Ql as [_ Ql].
  pose proof (four_point_obstruction an ad bn bd xi xj xk xl
                (band_hi eps yi) (band_lo eps yj) (band_lo eps yk) (band_hi eps yl)
                Had Hbd Hij Hkl Qi Qj Qk Ql) as Hle.
  lia.
Qed.

(* ---------- feasibility is hereditary for contiguous sub-blocks ---------- *)

Theorem feasible_app_l : forall eps a b, feasible eps (a ++ b) -> feasible eps a.
Proof.
  intros eps a b (an & ad & bn & bd & Had & Hbd & Hall).
  exists an, ad, bn, bd. split; [assumption|]. split; [assumption|].
  apply Forall_app in Hall. exact (proj1 Hall).
Qed.

Theorem feasible_app_r : forall eps a b, feasible eps (a ++ b) -> feasible eps b.
Proof.
  intros eps a b (an & ad & bn & bd & Had & Hbd & Hall).
  exists an, ad, bn, bd. split; [assumption|]. split; [assumption|].
  apply Forall_app in Hall. exact (proj2 Hall).
Qed.

Theorem feasible_hereditary : forall eps a b,
  feasible eps (a ++ b) -> feasible eps a /\ feasible eps b.
Proof.
  intros eps a b H. split; [exact (feasible_app_l eps a b H) | exact (feasible_app_r eps a b H)].
Qed.

(* any sub-multiset (here: any list whose elements all occur in pts) of a feasible list is feasible *)
Theorem feasible_incl : forall eps a pts, incl a pts -> feasible eps pts -> feasible eps a.
Proof.
  intros eps a pts Hincl (an & ad & bn & bd & Had & Hbd & Hall).
  exists an, ad, bn, bd. split; [assumption|]. split; [assumption|].
  rewrite Forall_forall in Hall. apply Forall_forall. intros p Hp. apply Hall. apply Hincl. exact Hp.
Qed.

Theorem feasible_nil : forall eps, feasible eps [].
Proof.
  intros eps. exists 0, 1, 0, 1. split; [lia|]. split; [lia|]. constructor.
Qed.

Print Assumptions line_ok_b_sound.
Print Assumptions line_ok_b_complete.
Print Assumptions cert4_b_sound.
Print Assumptions feasible_hereditary.
Print Assumptions feasible_incl.

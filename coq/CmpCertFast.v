(* CmpCertFast.v — the single left-to-right pass cmp_pass_b (what the harness runs, linear in the data)
   is equivalent, on sorted data, to the naive specification cmp_reps_b && cmp_gap_b written with lb / existsb. *)
From Coq Require Import ZArith Lia Bool List ZifyBool.
Require Import Base Fp PlaModel GenLeaf IndexModel IndexProofs CompressedModel CmpCertDefs.
Local Open Scope Z_scope.

Lemma lb_at pre : forall l q, Forall (fun y => y < q) pre -> (forall y, In y l -> q <= y) ->
  lb (pre ++ l) q = zlen pre.
Proof.
  induction pre as [|a pre IH]; intros l q Hp Hl.
  - cbn [app]. unfold zlen. cbn [length]. destruct l as [|x t]; [reflexivity|]. cbn [lb].
    specialize (Hl x (or_introl eq_refl)). assert (x <? q = false) as -> by lia. reflexivity.
  - inversion Hp as [|? ? Ha Hp']; subst. cbn [app lb]. assert (a <? q = true) as -> by lia.
    rewrite IH by assumption. unfold zlen. cbn [length]. lia.
Qed.

Lemma notin_at pre l q : Forall (fun y => y < q) pre -> (forall y, In y l -> q < y) -> ~ In q (pre ++ l).
Proof.
  intros Hp Hl H. apply in_app_or in H. destruct H as [H|H].
  - rewrite Forall_forall in Hp. specialize (Hp _ H). lia.
  - specialize (Hl _ H). lia.
Qed.

Lemma existsb_eqb_notIn q l : ~ In q l -> existsb (Z.eqb q) l = false.
Proof.
  intros H. destruct (existsb (Z.eqb q) l) eqn:E; [|reflexivity]. exfalso. apply H.
  apply existsb_exists in E. destruct E as (x & Hx & Ex). assert (q = x) by lia. now subst.
Qed.
Lemma existsb_eqb_In' q l : In q l -> existsb (Z.eqb q) l = true.
Proof. intros H. apply existsb_exists. exists q. split; [exact H|lia]. Qed.

Section Fast.
Variables (c : cfg) (data : list Z) (cp : compressed).
Let R (x : Z) : bool := rep_ok c data cp x.
Let GS (g : Z * Z) : bool :=
  R (fst g) && R (snd g) && ((lb data (fst g) =? lb data (snd g)) && gap_cond c cp (fst g) (snd g)).
Let P := point_full c cp (zlen data).
Let G := gap_full c cp (zlen data).

Lemma point_equiv x idx : lb data x = idx -> In x data -> P x idx = R x.
Proof.
  intros HL Hin. unfold P, R, point_full, rep_ok, contract_b.
  rewrite HL, (existsb_eqb_In' x data Hin). reflexivity.
Qed.

Lemma gap_equiv r1 r2 idx : lb data r1 = idx -> lb data r2 = idx -> ~ In r1 data -> ~ In r2 data ->
  G r1 r2 idx = GS (r1, r2).
Proof.
  intros L1 L2 N1 N2. unfold G, GS, R, gap_full, rep_ok, gap_cond, contract_b. cbn [fst snd].
  rewrite L1, L2, (existsb_eqb_notIn _ _ N1), (existsb_eqb_notIn _ _ N2), Z.eqb_refl.
  destruct (compressed_search_trace c cp r1) as [[a1 t1]|]; [|reflexivity].
  destruct (compressed_search_trace c cp r2) as [[a2 t2]|]; [|now rewrite andb_false_r].
  reflexivity.
Qed.

Lemma pass_from_spec top : forall l pre prev idx,
  data = pre ++ l -> idx = zlen pre -> sortedb l = true ->
  Forall (fun y => y <= prev) pre ->
  (pre <> [] -> forall y, In y l -> prev <= y) ->
  (pre <> [] -> R prev = true) ->
  (pass_from P G prev idx l top = true <->
   (forall x, In x l -> R x = true) /\ (forall g, In g (gaps_from prev l top) -> GS g = true)).
Proof.
  induction l as [|x t IH]; intros pre prev idx Hd Hi Hs Hp Hle Hr.
  - cbn [pass_from gaps_from]. destruct (prev + 1 <=? top) eqn:E.
    + assert (Hlt : Forall (fun y => y < prev + 1) pre) by (eapply Forall_impl; [|exact Hp]; cbn; intros; lia).
      assert (Hlt2 : Forall (fun y => y < top) pre) by (eapply Forall_impl; [|exact Hp]; cbn; intros; lia).
      rewrite (gap_equiv (prev + 1) top idx).
      * split; [intros H; split; [intros ? []|intros g [<-|[]]; exact H]|intros [_ H]; apply H; now left].
      * rewrite Hd, Hi. apply lb_at; [exact Hlt|intros ? []].
      * rewrite Hd, Hi. apply lb_at; [exact Hlt2|intros ? []].
      * rewrite Hd. apply notin_at; [exact Hlt|intros ? []].
      * rewrite Hd. apply notin_at; [exact Hlt2|intros ? []].
    + split; [intros _; split; [intros ? []|intros ? []]|reflexivity].
  - assert (Ht : sortedb t = true) by (eapply sortedb_tail; eauto).
    assert (Hxt : forall y, In y t -> x <= y) by (intros y Hy; eapply sortedb_head_le; eauto).
    assert (Hd' : data = (pre ++ [x]) ++ t) by (rewrite <- app_assoc; exact Hd).
    assert (Hi' : idx + 1 = zlen (pre ++ [x])) by (subst idx; unfold zlen; rewrite app_length; cbn [length]; lia).
    assert (Hne : pre ++ [x] <> []) by (destruct pre; discriminate).
    assert (Hpx : pre <> [] -> prev <= x) by (intros N; apply (Hle N); now left).
    assert (Hp' : Forall (fun y => y <= x) (pre ++ [x])).
    { apply Forall_app. split; [|constructor; [lia|constructor]].
      destruct pre as [|a pre']; [constructor|]. specialize (Hpx ltac:(discriminate)).
      eapply Forall_impl; [|exact Hp]. cbn. intros; lia. }
    assert (Hin : In x data) by (rewrite Hd; apply in_or_app; right; now left).
    cbn [pass_from gaps_from].
    destruct ((x =? prev) && negb (idx =? 0)) eqn:Dup.
    + (* duplicate of the previous element *)
      assert (x = prev) by lia. subst x. assert (Npre : pre <> []).
      { intros ->. unfold zlen in Hi. cbn in Hi. lia. }
      assert (prev + 1 <=? prev - 1 = false) as -> by lia. cbn [app andb].
      rewrite (IH (pre ++ [prev]) prev (idx + 1) Hd' Hi' Ht Hp' (fun _ => Hxt) (fun _ => Hr Npre)).
      split; intros [A B]; (split; [|exact B]).
      * intros y [<-|Hy]; [exact (Hr Npre)|now apply A].
      * intros y Hy. apply A. now right.
    + (* a new element *)
      assert (Hlt : pre <> [] -> prev < x).
      { intros N. specialize (Hpx N). assert (idx <> 0).
        { subst idx. unfold zlen. destruct pre; [contradiction|cbn [length]; lia]. } lia. }
      assert (HltF : Forall (fun y => y < x) pre).
      { destruct pre as [|a pre']; [constructor|]. specialize (Hlt ltac:(discriminate)).
        eapply Forall_impl; [|exact Hp]. cbn. intros; lia. }
      assert (HLx : lb data x = idx).
      { rewrite Hd, Hi. apply lb_at; [exact HltF|]. intros y [<-|Hy]; [lia|now apply Hxt]. }
      rewrite (point_equiv x idx HLx Hin).
      destruct (prev + 1 <=? x - 1) eqn:Eg.
      * assert (F1 : Forall (fun y => y < prev + 1) pre) by (eapply Forall_impl; [|exact Hp]; cbn; intros; lia).
        assert (F2 : Forall (fun y => y < x - 1) pre) by (eapply Forall_impl; [|exact Hp]; cbn; intros; lia).
        assert (Hge : forall q, q <= x - 1 -> forall y, In y (x :: t) -> q < y).
        { intros q Hq y [<-|Hy]; [lia|]. specialize (Hxt y Hy). lia. }
        rewrite (gap_equiv (prev + 1) (x - 1) idx).
        -- split.
           ++ intros H. apply andb_prop in H. destruct H as [H Hrest]. apply andb_prop in H. destruct H as [Hg Hx].
              apply (IH (pre ++ [x]) x (idx + 1) Hd' Hi' Ht Hp' (fun _ => Hxt) (fun _ => Hx)) in Hrest.
              destruct Hrest as [A B]. split.
              ** intros y [<-|Hy]; [exact Hx|now apply A].
              ** intros g [<-|Hg']; [exact Hg|now apply B].
           ++ intros [A B]. assert (Hx : R x = true) by (apply A; now left).
              rewrite Hx, (B (prev + 1, x - 1) (or_introl eq_refl)). cbn [andb].
              apply (IH (pre ++ [x]) x (idx + 1) Hd' Hi' Ht Hp' (fun _ => Hxt) (fun _ => Hx)). split.
              ** intros y Hy. apply A. now right.
              ** intros g Hg. apply B. now right.
        -- rewrite Hd, Hi. apply lb_at; [exact F1|]. intros y Hy. specialize (Hge (prev + 1) ltac:(lia) y Hy). lia.
        -- rewrite Hd, Hi. apply lb_at; [exact F2|]. intros y Hy. specialize (Hge (x - 1) ltac:(lia) y Hy). lia.
        -- rewrite Hd. apply notin_at; [exact F1|]. apply Hge. lia.
        -- rewrite Hd. apply notin_at; [exact F2|]. apply Hge. lia.
      * cbn [app andb]. split.
        -- intros H. apply andb_prop in H. destruct H as [Hx Hrest].
           apply (IH (pre ++ [x]) x (idx + 1) Hd' Hi' Ht Hp' (fun _ => Hxt) (fun _ => Hx)) in Hrest.
           destruct Hrest as [A B]. split; [|exact B]. intros y [<-|Hy]; [exact Hx|now apply A].
        -- intros [A B]. assert (Hx : R x = true) by (apply A; now left). rewrite Hx. cbn [andb].
           apply (IH (pre ++ [x]) x (idx + 1) Hd' Hi' Ht Hp' (fun _ => Hxt) (fun _ => Hx)). split; [|exact B].
           intros y Hy. apply A. now right.
Qed.

Lemma cmp_pass_iff : sortedb data = true ->
  (cmp_pass_b c data cp = true <-> cmp_reps_b c data cp = true /\ cmp_gap_b c data cp = true).
Proof.
  intros Hs. unfold cmp_pass_b. fold P. fold G.
  rewrite (pass_from_spec (sentinel c - 1) data [] (kmin (c_kt c) - 1) 0 eq_refl eq_refl Hs (Forall_nil _));
    [|intros N; now contradiction N|intros N; now contradiction N].
  fold (gaps c data). unfold cmp_reps_b, cmp_gap_b, rep_queries. rewrite !forallb_forall. fold R.
  split.
  - intros [A B]. split.
    + intros x Hx. apply in_app_or in Hx. destruct Hx as [Hx|Hx]; [now apply A|].
      apply in_flat_map in Hx. destruct Hx as (g & Hg & Hx). specialize (B g Hg). unfold GS in B.
      apply andb_prop in B. destruct B as [B _]. apply andb_prop in B. destruct B as [B1 B2].
      destruct Hx as [<-|[<-|[]]]; assumption.
    + intros g Hg. specialize (B g Hg). unfold GS in B. apply andb_prop in B. tauto.
  - intros [A B]. split.
    + intros x Hx. apply A. apply in_or_app. now left.
    + intros g Hg. unfold GS. rewrite (B g Hg), andb_true_r.
      rewrite !A; [reflexivity| |]; apply in_or_app; right; apply in_flat_map; exists g; (split; [exact Hg|]).
      * right. now left.
      * now left.
Qed.

(* the boolean the harness runs equals the specification *)
Theorem cmp_cert_b_spec : sortedb data = true -> cmp_cert_b c data cp = cmp_cert_spec_b c data cp.
Proof.
  intros Hs. unfold cmp_cert_b, cmp_cert_spec_b. rewrite <- andb_assoc. f_equal.
  apply eq_true_iff_eq. rewrite andb_true_iff. now apply cmp_pass_iff.
Qed.
End Fast.

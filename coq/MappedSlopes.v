(* MappedSlopes.v — C12, the floating-point part: a finite slope survives the file
   (float_bits -> bytes -> bits_float) exactly.  This is the only file of C11/C12 whose PROOFS use
   Flocq's real-number lemmas (binary_normalize_correct, B2R_Bsign_inj); they depend on the axioms of
   Coq's Reals library, which the model's definitions (binary_normalize, Bmult) depend on anyway. *)
Require Import Base Fp PlaModel GenLeaf IndexModel IndexProofs MappedModel MappedFile.
From Coq Require Import Reals ZifyBool.
From Flocq Require Import Core.Core IEEE754.BinarySingleNaN.
Local Open Scope Z_scope.

(* a format conversion whose target can represent the value is exact *)
Lemma conv_exact p1 e1 p2 e2 (H1 : Prec_gt_0 p2) (H2 : Prec_lt_emax p2 e2)
      (x : binary_float p1 e1) (y : binary_float p2 e2) :
  is_finite x = true -> is_finite y = true -> B2R x = B2R y -> Bsign x = Bsign y ->
  Fp.conv x p2 e2 H1 H2 = y.
Proof.
  intros Hfx Hfy HR HS. destruct x as [s| | |s m e Hb]; try discriminate.
  - cbn [Fp.conv]. apply B2R_Bsign_inj; [reflexivity|assumption|exact HR|exact HS].
  - cbn [Fp.conv]. cbn [B2R] in HR. cbn [Bsign] in HS.
    pose proof (binary_normalize_correct p2 e2 H1 H2 mode_NE (SpecFloat.cond_Zopp s (Zpos m)) e s) as Hc.
    cbn zeta in Hc. rewrite HR in Hc.
    rewrite round_generic in Hc; [|apply valid_rnd_N|apply generic_format_B2R].
    rewrite Rlt_bool_true in Hc by apply abs_B2R_lt_emax.
    destruct Hc as (Hc1 & Hc2 & Hc3).
    apply B2R_Bsign_inj; [assumption|assumption|exact Hc1|].
    rewrite Hc3, <- HS, <- HR. destruct s; cbn [SpecFloat.cond_Zopp].
    + rewrite Rcompare_Lt; [reflexivity|]. apply F2R_lt_0. cbn. lia.
    + rewrite Rcompare_Gt; [reflexivity|]. apply F2R_gt_0. cbn. lia.
Qed.

Lemma conv_id p e (H1 : Prec_gt_0 p) (H2 : Prec_lt_emax p e) (x : binary_float p e) :
  is_finite x = true -> Fp.conv x p e H1 H2 = x.
Proof. intros Hf. apply conv_exact; auto. Qed.

(* widening: every finite value of a narrower format is a finite value of the wider one *)
Lemma conv_widen p1 e1 p2 e2 (H1 : Prec_gt_0 p2) (H2 : Prec_lt_emax p2 e2) (x : binary_float p1 e1) :
  0 < p1 <= p2 -> e1 <= e2 -> 3 - e2 - p2 <= 3 - e1 - p1 -> is_finite x = true ->
  let y := Fp.conv x p2 e2 H1 H2 in
  is_finite y = true /\ B2R y = B2R x /\ Bsign y = Bsign x.
Proof.
  intros Hp He Hemin Hfx y. subst y. destruct x as [s| | |s m e Hb]; try discriminate.
  - cbn [Fp.conv]. repeat split.
  - cbn [Fp.conv B2R Bsign].
    destruct (bounded_facts p1 e1 m e ltac:(lia) Hb) as (Hm & Hee & _).
    pose proof (binary_normalize_correct p2 e2 H1 H2 mode_NE (SpecFloat.cond_Zopp s (Zpos m)) e s) as Hc.
    cbn zeta in Hc.
    set (xr := F2R {| Fnum := SpecFloat.cond_Zopp s (Z.pos m); Fexp := e |}) in *.
    assert (Hgen : generic_format radix2 (SpecFloat.fexp p2 e2) xr).
    { apply generic_format_FLT. apply (FLT_spec _ _ _ _ (Float radix2 (SpecFloat.cond_Zopp s (Zpos m)) e)); [reflexivity| |cbn [Fexp]; unfold SpecFloat.emin; lia].
      cbn [Fnum]. assert (2 ^ p1 <= 2 ^ p2) by (apply Z.pow_le_mono_r; lia).
      change (Zpower radix2 p2) with (2 ^ p2). destruct s; cbn [SpecFloat.cond_Zopp]; lia. }
    assert (Hlt : (Rabs xr < bpow radix2 e2)%R).
    { apply Rlt_le_trans with (bpow radix2 e1); [|apply bpow_le; lia].
      exact (abs_B2R_lt_emax p1 e1 (B754_finite s m e Hb)). }
    rewrite round_generic in Hc; [|apply valid_rnd_N|exact Hgen].
    rewrite Rlt_bool_true in Hc by exact Hlt.
    destruct Hc as (Hc1 & Hc2 & Hc3). split; [exact Hc2|]. split; [exact Hc1|].
    rewrite Hc3. subst xr. destruct s; cbn [SpecFloat.cond_Zopp].
    + rewrite Rcompare_Lt; [reflexivity|]. apply F2R_lt_0. cbn. lia.
    + rewrite Rcompare_Gt; [reflexivity|]. apply F2R_gt_0. cbn. lia.
Qed.

(* ---- decoding the written pattern, as Flocq values ---- *)
Theorem bits_slope_slope_bits_double c (x : f64) : c_fdouble c = true -> is_finite x = true ->
  bits_slope c (slope_bits c x) = x.
Proof.
  intros Hc Hf. unfold bits_slope, slope_bits. rewrite Hc.
  rewrite (bits_float_float_bits 53 1024 64 x) by (lia || (cbn; lia) || exact Hf).
  rewrite (conv_id 53 1024 p53 e53 x Hf). apply conv_id. exact Hf.
Qed.

Theorem bits_slope_slope_bits_float c (x : f64) : c_fdouble c = false -> is_finite (f64_to_f32 x) = true ->
  bits_slope c (slope_bits c x) = f32_to_f64 (f64_to_f32 x).
Proof.
  intros Hc Hf. unfold bits_slope, slope_bits. rewrite Hc.
  rewrite (bits_float_float_bits 24 128 32 (f64_to_f32 x)) by (lia || (cbn; lia) || exact Hf).
  fold (f32_to_f64 (f64_to_f32 x)).
  destruct (conv_widen 24 128 53 1024 p53 e53 (f64_to_f32 x) ltac:(lia) ltac:(lia) ltac:(lia) Hf) as (Hy & _).
  apply conv_id. exact Hy.
Qed.

(* a float widened to double and narrowed again is itself *)
Lemma f64_to_f32_f32_to_f64 (y : f32) : is_finite y = true -> f64_to_f32 (f32_to_f64 y) = y.
Proof.
  intros Hf. destruct (conv_widen 24 128 53 1024 p53 e53 y ltac:(lia) ltac:(lia) ltac:(lia) Hf) as (Hy & HR & HS).
  unfold f64_to_f32, f32_to_f64. apply conv_exact; assumption.
Qed.

Theorem slope_ok_finite c x : slope_finite c x = true -> slope_ok c x.
Proof.
  intros Hf. split; [apply slope_bits_range; exact Hf|].
  unfold slope_finite in Hf. destruct (c_fdouble c) eqn:Hc.
  - rewrite bits_slope_slope_bits_double by assumption. reflexivity.
  - rewrite bits_slope_slope_bits_float by assumption.
    unfold slope_bits at 1. rewrite Hc. rewrite f64_to_f32_f32_to_f64 by exact Hf.
    unfold slope_bits. rewrite Hc. reflexivity.
Qed.

(* ---- C12 with the slope condition stated as finiteness ---- *)
Definition wf_segment_fin (c : cfg) (s : segment) : Prop :=
  in_ktype (c_kt c) (sg_key s) = true /\ 0 <= sg_icpt s < 2 ^ 32 /\ slope_finite c (sg_slope s) = true.

Record wf_index_fin (c : cfg) (ix : index) : Prop := mkWfFin {
  wff_kbits : kbits_ok c;
  wff_n : u64 (ix_n ix);
  wff_first : in_ktype (c_kt c) (ix_first_key ix) = true;
  wff_offsets : Forall u64 (ix_offsets ix);
  wff_segments : Forall (wf_segment_fin c) (ix_segments ix);
  wff_header : header_size c ix < 2 ^ 64
}.

Lemma wf_index_of_fin c ix : wf_index_fin c ix -> wf_index c ix.
Proof.
  intros [H1 H2 H3 H4 H5 H6]. constructor; try assumption.
  eapply Forall_impl; [|exact H5]. intros s (Hk & Hi & Hf).
  split; [exact Hk|]. split; [exact Hi|]. apply slope_ok_finite. exact Hf.
Qed.

Theorem load_serialize_finite c ix keys :
  wf_index_fin c ix -> wf_keys c keys -> ix_n ix = zlen keys ->
  load c (serialize c ix keys) = Ok (reread_index c ix, keys) /\ index_eq c (reread_index c ix) ix.
Proof. intros Hwf. apply load_serialize_explicit. apply wf_index_of_fin. exact Hwf. Qed.

(* with Floating = double the index read back is THE index (equal as Coq values, slopes included) *)
Theorem load_serialize_double c ix keys :
  c_fdouble c = true -> wf_index_fin c ix -> wf_keys c keys -> ix_n ix = zlen keys ->
  load c (serialize c ix keys) = Ok (ix, keys).
Proof.
  intros Hc Hwf Hk Hn. destruct (load_serialize_finite c ix keys Hwf Hk Hn) as [Hl _].
  rewrite Hl. f_equal. f_equal. destruct Hwf as [_ _ _ _ Hsegs _].
  unfold reread_index. destruct ix as [n fk segs offs]; cbn [ix_n ix_first_key ix_segments ix_offsets] in *.
  f_equal. apply map_id_on. eapply Forall_impl; [|exact Hsegs].
  intros s (_ & _ & Hf). unfold reread_segment. unfold slope_finite in Hf. rewrite Hc in Hf.
  rewrite bits_slope_slope_bits_double by assumption. destruct s; reflexivity.
Qed.

Theorem reopen_from_range_double c data m :
  c_fdouble c = true -> from_range c data = Ok m -> wf_index_fin c (mp_ix m) -> wf_keys c data ->
  reopen c (mp_file m) = Ok m.
Proof.
  intros Hc. unfold from_range. destruct (build c data) as [ix|e] eqn:Eb; cbn [bind]; [|discriminate].
  intros H Hwf Hk. injection H as <-. cbn [mp_ix mp_data mp_file] in *.
  unfold reopen. rewrite (load_serialize_double c ix data Hc Hwf Hk (build_n c data ix Eb)). reflexivity.
Qed.

(* ---- boolean forms (judges) and non-vacuity on built indexes ---- *)
Definition u64b (z : Z) : bool := (0 <=? z) && (z <? 2 ^ 64).
Definition kbits_okb (c : cfg) : bool :=
  let b := kbits (c_kt c) in (b =? 8) || (b =? 16) || (b =? 32) || (b =? 64).
Definition wf_segment_fin_b (c : cfg) (s : segment) : bool :=
  in_ktype (c_kt c) (sg_key s) && (0 <=? sg_icpt s) && (sg_icpt s <? 2 ^ 32) && slope_finite c (sg_slope s).
Definition wf_index_fin_b (c : cfg) (ix : index) : bool :=
  kbits_okb c && u64b (ix_n ix) && in_ktype (c_kt c) (ix_first_key ix) && forallb u64b (ix_offsets ix)
  && forallb (wf_segment_fin_b c) (ix_segments ix) && (header_size c ix <? 2 ^ 64).
Definition wf_keys_b (c : cfg) (keys : list Z) : bool := forallb (in_ktype (c_kt c)) keys.

Lemma forallb_Forall {A} (f : A -> bool) (P : A -> Prop) l :
  (forall a, f a = true -> P a) -> forallb f l = true -> Forall P l.
Proof.
  intros Hf H. apply Forall_forall. intros a Ha. apply Hf.
  rewrite forallb_forall in H. apply H. exact Ha.
Qed.

Lemma wf_keys_b_ok c keys : wf_keys_b c keys = true -> wf_keys c keys.
Proof. apply forallb_Forall. auto. Qed.

Lemma wf_index_fin_b_ok c ix : wf_index_fin_b c ix = true -> wf_index_fin c ix.
Proof.
  unfold wf_index_fin_b. intros H.
  apply andb_prop in H. destruct H as [H Hh]. apply andb_prop in H. destruct H as [H Hs].
  apply andb_prop in H. destruct H as [H Ho]. apply andb_prop in H. destruct H as [H Hf].
  apply andb_prop in H. destruct H as [Hk Hn].
  constructor.
  - unfold kbits_okb in Hk. unfold kbits_ok. cbn zeta in Hk. lia.
  - unfold u64b in Hn. unfold u64. lia.
  - assumption.
  - revert Ho. apply forallb_Forall. unfold u64b, u64. intros a Ha. lia.
  - revert Hs. apply forallb_Forall. unfold wf_segment_fin_b, wf_segment_fin. intros s Hs.
    apply andb_prop in Hs. destruct Hs as [Hs H4]. apply andb_prop in Hs. destruct Hs as [Hs H3].
    apply andb_prop in Hs. destruct Hs as [H1 H2]. repeat split; try assumption; lia.
  - lia.
Qed.

(* non-vacuity: built indexes (Floating = double / unsigned keys; Floating = float / signed 16-bit keys)
   satisfy wf_index_fin, so the theorems apply to them *)
Definition exA_cfg := mkCfg (mkK 32 false) 1 1 true 1 false.
Definition exA_data := [1;3;3;7;7;7;7;7;7;7;7;7;7;7;7;9;12;12;20].
Definition exB_cfg := mkCfg (mkK 16 true) 2 2 false 1 false.
Definition exB_data := [-300;-7;-7;-1;0;5;5;5;90;1000;1001;1002;1500;20000].

Definition ex_wf (c : cfg) (d : list Z) : bool :=
  match from_range c d with Ok m => wf_index_fin_b c (mp_ix m) && wf_keys_b c d | Err _ => false end.
Lemma ex_wf_A : ex_wf exA_cfg exA_data = true. Proof. vm_compute. reflexivity. Qed.
Lemma ex_wf_B : ex_wf exB_cfg exB_data = true. Proof. vm_compute. reflexivity. Qed.

Lemma ex_wf_use c d : ex_wf c d = true ->
  exists m, from_range c d = Ok m /\ wf_index_fin c (mp_ix m) /\ wf_keys c d.
Proof.
  unfold ex_wf. destruct (from_range c d) as [m|e]; [|discriminate]. intros H.
  apply andb_prop in H. destruct H as [H1 H2]. exists m. split; [reflexivity|].
  split; [apply wf_index_fin_b_ok; exact H1|apply wf_keys_b_ok; exact H2].
Qed.

Example C12_instance_double :
  exists m, from_range exA_cfg exA_data = Ok m /\ reopen exA_cfg (mp_file m) = Ok m /\
            from_raw exA_cfg (raw_file exA_cfg exA_data) = Ok m.
Proof.
  destruct (ex_wf_use _ _ ex_wf_A) as (m & Hm & Hwf & Hk). exists m. split; [exact Hm|]. split.
  - exact (reopen_from_range_double exA_cfg exA_data m eq_refl Hm Hwf Hk).
  - rewrite from_raw_raw_file; [exact Hm|exact (wff_kbits _ _ Hwf)|exact Hk].
Qed.

Example C12_instance_float :
  exists m m', from_range exB_cfg exB_data = Ok m /\ reopen exB_cfg (mp_file m) = Ok m' /\
               mp_data m' = exB_data /\ mp_file m' = mp_file m /\ index_eq exB_cfg (mp_ix m') (mp_ix m).
Proof.
  destruct (ex_wf_use _ _ ex_wf_B) as (m & Hm & Hwf & Hk).
  destruct (reopen_from_range exB_cfg exB_data m Hm (wf_index_of_fin _ _ Hwf) Hk) as (m' & Hr & _ & Hd & Hf & He).
  exists m, m'. auto.
Qed.

(* the finiteness condition cannot be dropped: the model's bits_float decodes the NaN pattern as an
   infinity (infinities themselves do survive), so a NaN slope would not satisfy slope_ok *)
Example nan_slope_not_ok : ~ slope_ok exA_cfg B754_nan.
Proof. intros [_ H]. vm_compute in H. discriminate. Qed.

Print Assumptions slope_ok_finite.
Print Assumptions load_serialize_finite.
Print Assumptions load_serialize_double.
Print Assumptions C12_instance_double.

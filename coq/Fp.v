(* Fp.v — the floating-point operations the C++ code performs, as Flocq IEEE-754 operations.
   float = binary32 (24,128); double = binary64 (53,1024); x87 long double = (64,16384).
   All in round-to-nearest-even.  The correspondence check validates (bit for bit) that g++ on
   x86-64 evaluates the same expressions to the same values. *)
From Coq Require Import ZArith List Bool.
From Flocq Require Import Core.Core IEEE754.BinarySingleNaN.
Local Open Scope Z_scope.

Definition f32 := binary_float 24 128.
Definition f64 := binary_float 53 1024.
Definition f80 := binary_float 64 16384.
Lemma p24 : Prec_gt_0 24. Proof. reflexivity. Qed.
Lemma p53 : Prec_gt_0 53. Proof. reflexivity. Qed.
Lemma p64 : Prec_gt_0 64. Proof. reflexivity. Qed.
Lemma e24 : Prec_lt_emax 24 128. Proof. reflexivity. Qed.
Lemma e53 : Prec_lt_emax 53 1024. Proof. reflexivity. Qed.
Lemma e64 : Prec_lt_emax 64 16384. Proof. reflexivity. Qed.

Definition ofZ32 (z : Z) : f32 := binary_normalize 24 128 p24 e24 mode_NE z 0 false.
Definition ofZ64 (z : Z) : f64 := binary_normalize 53 1024 p53 e53 mode_NE z 0 false.
Definition ofZ80 (z : Z) : f80 := binary_normalize 64 16384 p64 e64 mode_NE z 0 false.

Definition div80 : f80 -> f80 -> f80 := Bdiv (prec:=64) (emax:=16384) (prec_gt_0_:=p64) (prec_lt_emax_:=e64) mode_NE.
Definition mul80 : f80 -> f80 -> f80 := Bmult (prec:=64) (emax:=16384) (prec_gt_0_:=p64) (prec_lt_emax_:=e64) mode_NE.
Definition add80 : f80 -> f80 -> f80 := Bplus (prec:=64) (emax:=16384) (prec_gt_0_:=p64) (prec_lt_emax_:=e64) mode_NE.
Definition sub80 : f80 -> f80 -> f80 := Bminus (prec:=64) (emax:=16384) (prec_gt_0_:=p64) (prec_lt_emax_:=e64) mode_NE.
Definition mul64 : f64 -> f64 -> f64 := Bmult (prec:=53) (emax:=1024) (prec_gt_0_:=p53) (prec_lt_emax_:=e53) mode_NE.
Definition mul32 : f32 -> f32 -> f32 := Bmult (prec:=24) (emax:=128) (prec_gt_0_:=p24) (prec_lt_emax_:=e24) mode_NE.

(* format conversion (a C++ cast between floating types): re-round mantissa*2^exponent *)
Definition conv {p e} (x : binary_float p e) p2 e2 (H1 : Prec_gt_0 p2) (H2 : Prec_lt_emax p2 e2)
  : binary_float p2 e2 :=
  match x with
  | B754_finite s m ex _ => binary_normalize p2 e2 H1 H2 mode_NE (cond_Zopp s (Zpos m)) ex s
  | B754_zero s => B754_zero s
  | B754_infinity s => B754_infinity s
  | B754_nan => B754_nan
  end.
Definition f80_to_f32 (x : f80) : f32 := conv x 24 128 p24 e24.
Definition f80_to_f64 (x : f80) : f64 := conv x 53 1024 p53 e53.
Definition f32_to_f64 (x : f32) : f64 := conv x 53 1024 p53 e53.
Definition f64_to_f32 (x : f64) : f32 := conv x 24 128 p24 e24.
Definition f64_to_f80 (x : f64) : f80 := conv x 64 16384 p64 e64.
Definition f32_to_f80 (x : f32) : f80 := conv x 64 16384 p64 e64.

(* truncation toward zero of a finite value; None for inf/nan *)
Definition truncZ {p e} (x : binary_float p e) : option Z :=
  match x with
  | B754_finite s m ex _ =>
      Some (cond_Zopp s (match ex with
                         | Zneg q => Z.shiftr (Zpos m) (Zpos q)
                         | _ => Z.shiftl (Zpos m) ex end))
  | B754_zero _ => Some 0
  | _ => None
  end.

(* x86-64 cvttsd2si / cvttss2si (64-bit destination): the "integer indefinite" value -2^63 when out of range *)
Definition cvtt_i64 {p e} (x : binary_float p e) : Z :=
  match truncZ x with
  | Some z => if (- 2 ^ 63 <=? z) && (z <? 2 ^ 63) then z else - 2 ^ 63
  | None => - 2 ^ 63
  end.
(* AVX-512 vcvttsd2usi (64-bit destination): 2^64-1 when out of range; values in (-1,0) truncate to 0 *)
Definition cvtt_u64_avx512 {p e} (x : binary_float p e) : Z :=
  match truncZ x with
  | Some z => if (0 <=? z) && (z <? 2 ^ 64) then z else 2 ^ 64 - 1
  | None => 2 ^ 64 - 1
  end.
(* in-range test for the C++ conversion to an unsigned 64-bit integer (out of range = UB in C++) *)
Definition u64_conv_in_range {p e} (x : binary_float p e) : bool :=
  match truncZ x with Some z => (0 <=? z) && (z <? 2 ^ 64) | None => false end.
Definition i64_conv_in_range {p e} (x : binary_float p e) : bool :=
  match truncZ x with Some z => (- 2 ^ 63 <=? z) && (z <? 2 ^ 63) | None => false end.

(* canonical printable form: (signed mantissa, exponent) with the mantissa odd, (0,0) for zero,
   (1,99999)/(−1,99999) for infinities, (0,99999) for NaN *)
Fixpoint strip_pos (fuel : nat) (m : positive) (e : Z) : positive * Z :=
  match fuel with
  | O => (m, e)
  | S k => match m with xO m' => strip_pos k m' (e + 1) | _ => (m, e) end
  end.
Definition frepr {p e} (x : binary_float p e) : Z * Z :=
  match x with
  | B754_finite s m ex _ => let '(m', e') := strip_pos 128 m ex in (cond_Zopp s (Zpos m'), e')
  | B754_zero _ => (0, 0)
  | B754_infinity s => (cond_Zopp s 1, 99999)
  | B754_nan => (0, 99999)
  end.

Definition f64_zero : f64 := B754_zero false.
Definition f64_is_zero (x : f64) : bool := match x with B754_zero _ => true | _ => false end.

Definition frepr64 (x : f64) : Z * Z := frepr x.
Definition frepr32 (x : f32) : Z * Z := frepr x.
Definition frepr80 (x : f80) : Z * Z := frepr x.

(* IdxGapPla.v — a structural fact about the segmentation drivers used by IdxGap*.v: the last two
   blocks of a segmentation are never "one block that could have absorbed the closing point,
   followed by the closing point alone" (greedy within a chunk; a chunk never starts at rank n). *)
Require Import Base Fp PlaModel PlaSpec PlaCert Greedy PlaComplete PlaSoundGeom PlaSoundInv PlaSound GenLeaf IndexModel IndexProofs MappedQueries IdxFed IdxSeg IdxBlock IdxLevel IdxSearch0 IdxRoute IdxChain IdxMain IdxFuel.
From Coq Require Import ZifyBool.
Local Open Scope Z_scope.

Definition hdp (b : list (Z * Z)) : Z * Z := hd (0, 0) b.

(* the last pair of blocks: the earlier one is maximal, or the later one starts below rank n *)
Fixpoint tailP (eps n : Z) (g : list (list (Z * Z))) : Prop :=
  match g with
  | b1 :: ((b2 :: tl') as tl) =>
      (tl' = [] -> ~ feasible eps (b1 ++ [hdp b2]) \/ snd (hdp b2) < n) /\ tailP eps n tl
  | _ => True
  end.

Definition headP (n : Z) (g : list (list (Z * Z))) : Prop :=
  match g with [] => True | b :: _ => snd (hdp b) < n end.

Lemma tailP_app eps n g1 : forall g2,
  Forall (fun b => b <> []) g1 -> greedy (feasible eps) g1 -> tailP eps n g2 -> headP n g2 ->
  tailP eps n (g1 ++ g2).
Proof.
  induction g1 as [|b g1' IH]; intros g2 Hne Hgr Ht Hh; [exact Ht|].
  inversion Hne as [|b0 l0 Hb Hne']; subst.
  destruct g1' as [|b' t].
  - cbn [app]. destruct g2 as [|b2 tl']; [exact I|]. cbn [tailP]. split; [|exact Ht].
    intros _. right. exact Hh.
  - cbn [app]. change (tailP eps n (b :: b' :: (t ++ g2))) with
      ((t ++ g2 = [] -> ~ feasible eps (b ++ [hdp b']) \/ snd (hdp b') < n) /\ tailP eps n (b' :: (t ++ g2))).
    split.
    + intros _. left. cbn [greedy] in Hgr. destruct Hgr as [H1 _].
      inversion Hne' as [|b0 l0 Hb' _]; subst. destruct b' as [|x r]; [contradiction|]. exact H1.
    + apply (IH g2 Hne' (greedy_tail _ _ _ _ Hgr) Ht Hh).
Qed.

Lemma tailP_last eps n g1 : forall b1 b2, tailP eps n (g1 ++ [b1; b2]) ->
  ~ feasible eps (b1 ++ [hdp b2]) \/ snd (hdp b2) < n.
Proof.
  induction g1 as [|a g1' IH]; intros b1 b2 H.
  - cbn [app tailP] in H. destruct H as [H _]. apply H. reflexivity.
  - apply IH. cbn [app] in H. destruct (g1' ++ [b1; b2]) as [|c tl] eqn:E.
    + destruct g1'; discriminate E.
    + cbn [tailP] in H. exact (proj2 H).
Qed.

Lemma tailP_of_greedy eps n g : Forall (fun b => b <> []) g -> greedy (feasible eps) g -> tailP eps n g.
Proof.
  intros Hne Hgr. rewrite <- (app_nil_r g). apply tailP_app; [exact Hne | exact Hgr | exact I | exact I].
Qed.

(* one chunk: non-empty blocks, related segments, greedy, and the first block starts at rank `start` *)
Lemma chunk_tail kt n start eps chunk rest segs fed count :
  make_segmentation_chunk kt n start eps chunk rest = Ok (segs, fed, count) ->
  0 <= start -> start + zlen chunk <= n -> n + eps < 2 ^ 64 - 1 ->
  exists g, concat g = fed /\ Forall (fun b => b <> []) g /\ Forall2 (seg_rel2 eps) segs g /\
            greedy (feasible eps) g /\ zlen g = count /\ headP n g /\ g <> [].
Proof.
  intros H Hs He Hn. pose proof (eps_nonneg_of_chunk _ _ _ _ _ _ _ H) as Heps.
  destruct (make_segmentation_chunk_greedy eps (feasible eps) (seg_rel2 eps) (sinv eps)
              (P_first eps Heps) (P_step eps Heps) (P_ok eps) (P_R2 eps Heps) (P_R2_reject eps Heps)
              kt n start chunk rest segs fed count H Hs He Hn) as (g & G1 & G2 & G3 & G4 & G5).
  assert (Hne : Forall (fun b => b <> []) g).
  { eapply Forall_impl; [|exact G2]. cbn beta. intros b [Hb _]. exact Hb. }
  exists g. split; [exact G1|]. split; [exact Hne|]. split; [exact G5|]. split; [exact G3|]. split; [exact G4|].
  pose proof (chunk_fed_eq _ _ _ _ _ _ _ _ _ H) as Ef.
  pose proof (chunk_Ok_nonempty _ _ _ _ _ _ _ H) as Hc.
  destruct chunk as [|x0 tl]; [contradiction|]. unfold chunk_fed in Ef. cbn [app] in Ef.
  rewrite <- G1 in Ef. destruct g as [|b g']; [discriminate Ef|]. split; [|discriminate].
  inversion Hne as [|b0 l0 Hb _]; subst. destruct b as [|p b']; [contradiction|].
  cbn [concat app] in Ef. injection Ef as -> _. cbn [headP hdp hd snd].
  rewrite zlen_cons in He. pose proof (zlen_ge0 tl). lia.
Qed.

Lemma headP_app n g1 g2 : headP n g1 -> headP n g2 -> headP n (g1 ++ g2).
Proof. destruct g1; cbn [app headP]; tauto. Qed.

Lemma par_chunks_tail kt n eps cs par data : forall is_ segs fed count,
  par_chunks kt n eps cs par data is_ = Ok (segs, fed, count) ->
  0 <= cs -> n + eps < 2 ^ 64 - 1 ->
  Forall (fun i => 0 <= i /\ (i + 1) * cs <= n) is_ ->
  exists g, concat g = fed /\ Forall (fun b => b <> []) g /\ Forall2 (seg_rel2 eps) segs g /\
            tailP eps n g /\ headP n g.
Proof.
  induction is_ as [|i rest IH]; intros segs fed count H Hcs Hn Hall.
  - cbn [par_chunks] in H. injection H as <- <- <-. exists []. repeat split; constructor.
  - cbn [par_chunks] in H. inversion Hall as [|i0 rest0 [Hi0 Hi1] Hall']; subst.
    set (first0 := i * cs) in *. set (last_ := if i =? par - 1 then n else first0 + cs) in *.
    assert (Hf0 : 0 <= first0) by (unfold first0; apply Z.mul_nonneg_nonneg; lia).
    assert (Hlast : last_ <= n).
    { unfold last_. destruct (i =? par - 1); [lia|].
      unfold first0. replace ((i + 1) * cs) with (i * cs + cs) in Hi1 by ring. lia. }
    pose proof (zlen_slice_le _ data first0 last_) as Hsl.
    match type of H with
    | bind ?e _ = _ => destruct e as [[[s1 f1] c1]|e1] eqn:Ehere; cbn [bind] in H; [|discriminate H]
    end.
    destruct (par_chunks kt n eps cs par data rest) as [[[s2 f2] c2]|e2] eqn:Etl; cbn [bind] in H; [|discriminate H].
    injection H as <- <- <-.
    destruct (IH s2 f2 c2 eq_refl Hcs Hn Hall') as (g2 & C1 & C2 & C3 & C4 & C5).
    assert (Hhere : exists g1, concat g1 = f1 /\ Forall (fun b => b <> []) g1 /\ Forall2 (seg_rel2 eps) s1 g1 /\
                               greedy (feasible eps) g1 /\ headP n g1).
    { destruct (first0 >? 0).
      - destruct (nth_res data (first0 - 1)) as [prev|e]; cbn [bind] in Ehere; [|discriminate Ehere].
        destruct (skip_run prev (slice data first0 last_) first0) as [chunk first] eqn:Esk.
        destruct (skip_run_len _ _ _ _ _ Esk) as [Sk1 Sk2].
        destruct (first =? last_).
        + injection Ehere as <- <- <-. exists []. repeat split; constructor.
        + destruct (chunk_tail kt n first eps chunk _ s1 f1 c1 Ehere) as (g & G1 & G2 & G3 & G4 & _ & G6 & _); [lia | lia | exact Hn |].
          exists g. tauto.
      - destruct (chunk_tail kt n first0 eps _ _ s1 f1 c1 Ehere) as (g & G1 & G2 & G3 & G4 & _ & G6 & _); [lia | lia | exact Hn |].
        exists g. tauto. }
    destruct Hhere as (g1 & D1 & D2 & D3 & D4 & D5).
    exists (g1 ++ g2). split; [rewrite concat_app, D1, C1; reflexivity|].
    split; [apply Forall_app; split; assumption|]. split; [apply Forall2_app; assumption|].
    split; [apply tailP_app; assumption | apply headP_app; assumption].
Qed.

Theorem mseg_par_tail kt threshold par n eps data segs fed count :
  make_segmentation_par kt threshold par n eps data = Ok (segs, fed, count) ->
  1 <= par -> zlen data <= n -> n + eps < 2 ^ 64 - 1 ->
  exists g, concat g = fed /\ Forall (fun b => b <> []) g /\ Forall2 (seg_rel2 eps) segs g /\ tailP eps n g.
Proof.
  intros H Hpar Hd Hn. unfold make_segmentation_par in H.
  destruct ((par =? 1) || (n <? threshold)) eqn:Eseq.
  - unfold make_segmentation in H.
    destruct (chunk_tail kt n 0 eps data [] segs fed count H ltac:(lia) ltac:(lia) Hn) as (g & G1 & G2 & G3 & G4 & _).
    exists g. split; [exact G1|]. split; [exact G2|]. split; [exact G3|]. apply tailP_of_greedy; assumption.
  - pose proof (zlen_ge0 data) as Hd0. assert (Hn0 : 0 <= n) by lia.
    assert (Hcs : 0 <= Z.quot n par) by (apply Z.quot_pos; lia).
    assert (Hmul : par * Z.quot n par <= n) by (apply Z.mul_quot_le; lia).
    destruct (par_chunks_tail kt n eps (Z.quot n par) par data (zseq 0 (Z.to_nat par)) segs fed count H Hcs Hn)
      as (g & G1 & G2 & G3 & G4 & _).
    { eapply Forall_impl; [|exact (zseq_range (Z.to_nat par) 0)].
      intros i Hi. cbn beta in Hi. split; [lia|].
      assert ((i + 1) * Z.quot n par <= par * Z.quot n par) by (apply Z.mul_le_mono_nonneg_r; lia).
      lia. }
    exists g. tauto.
Qed.

(* ---- the shape of two blocks that start at the last key and at the closing point ---- *)
Lemma two_blocks_shape (X ra rb Y : list (Z * Z)) pa pb K :
  incr (X ++ (pa :: ra) ++ (pb :: rb) ++ Y) ->
  (forall p, In p (X ++ (pa :: ra) ++ (pb :: rb) ++ Y) -> fst p <= K + 1) ->
  fst pa = K -> fst pb = K + 1 -> ra = [] /\ rb = [] /\ Y = [].
Proof.
  intros Hi Hle Ea Eb. apply incr_app in Hi. destruct Hi as (_ & Hi & _).
  apply incr_app in Hi. destruct Hi as (Ha & Hb & Hab).
  assert (Hin : forall q, In q (rb ++ Y) -> False).
  { intros q Hq. change ((pb :: rb) ++ Y) with (pb :: (rb ++ Y)) in Hb. cbn [incr] in Hb. destruct Hb as [Hf _].
    rewrite Forall_forall in Hf. destruct (Hf q Hq) as [H1 _].
    assert (In q (X ++ (pa :: ra) ++ (pb :: rb) ++ Y)).
    { apply in_or_app. right. apply in_or_app. right. right. exact Hq. }
    specialize (Hle q H). lia. }
  assert (Hra : ra = []).
  { destruct ra as [|q ra']; [reflexivity|exfalso]. cbn [incr] in Ha. destruct Ha as [Hf _].
    apply Forall_inv in Hf. destruct Hf as [H1 _].
    destruct (Hab q pb) as [H2 _]; [right; left; reflexivity | apply in_or_app; left; left; reflexivity|]. lia. }
  split; [exact Hra|].
  destruct rb as [|q rb']; [|exfalso; apply (Hin q); left; reflexivity].
  split; [reflexivity|]. destruct Y as [|q Y']; [reflexivity|exfalso; apply (Hin q); left; reflexivity].
Qed.

Lemma incr_x_inj l p q : incr l -> In p l -> In q l -> fst p = fst q -> p = q.
Proof.
  induction l as [|a t IH]; intros Hi Hp Hq E; [contradiction|].
  cbn [incr] in Hi. destruct Hi as [Hf Hi]. rewrite Forall_forall in Hf.
  destruct Hp as [<-|Hp]; destruct Hq as [<-|Hq].
  - reflexivity.
  - destruct (Hf q Hq). lia.
  - destruct (Hf p Hp). lia.
  - apply IH; assumption.
Qed.

Lemma pair_feasible eps x y : 1 <= eps -> 0 <= y -> y + 1 + eps < 2 ^ 64 - 1 ->
  feasible eps [(x, y); (x + 1, y + 1)].
Proof.
  intros He Hy Hb. apply narrow_block_feasible; [lia| |].
  - unfold ranks_ok. repeat constructor; cbn [snd]; lia.
  - intros p q [<-|[<-|[]]] [<-|[<-|[]]]; cbn [snd]; lia.
Qed.

(* ---- strictly increasing keys: no segment holds the last key alone in front of a segment that
        holds the closing point alone ---- *)
Theorem no_split_tail kt thr par eps keys css fed cnt :
  make_segmentation_par kt thr par (zlen keys) eps keys = Ok (css, fed, cnt) ->
  1 <= par -> keys <> [] -> ssortedb keys = true -> nowrap kt keys ->
  zlen keys + 1 + eps < 2 ^ 64 - 1 -> 1 <= eps ->
  forall c1 ca cb c2, css = c1 ++ ca :: cb :: c2 ->
    c_first ca = last keys 0 -> c_first cb = last keys 0 + 1 -> False.
Proof.
  intros H Hpar Hne Hss Hw Hb He c1 ca cb c2 Ecss Ea Eb.
  pose proof (ssortedb_sorted _ Hss) as Hs. set (K := last keys 0) in *. set (n := zlen keys) in *.
  destruct (mseg_par_tail _ _ _ _ _ _ _ _ _ H Hpar ltac:(lia) ltac:(lia)) as (g & G1 & G2 & G3 & G4).
  pose proof (make_segmentation_par_fed _ _ _ _ _ _ _ _ H Hpar) as Efed.
  rewrite Ecss in G3. apply Forall2_app_inv_l in G3. destruct G3 as (g1 & gr & _ & F & ->).
  inversion F as [|x ba l gr' Ra F' E1 E2]; subst x l gr. clear F.
  inversion F' as [|x bb l g2 Rb F'' E1 E2]; subst x l gr'. clear F' F''.
  destruct Ra as [(Fa & _) _]. destruct Rb as [(Fb & _) _].
  apply Forall_app in G2. destruct G2 as [_ G2]. inversion G2 as [|x l Hba G2']; subst x l.
  inversion G2' as [|x l Hbb G2'']; subst x l.
  destruct ba as [|pa ra]; [contradiction|]. destruct bb as [|pb rb]; [contradiction|]. cbn [hd] in Fa, Fb.
  assert (Ecat : fed = concat g1 ++ (pa :: ra) ++ (pb :: rb) ++ concat g2).
  { rewrite <- G1, concat_app. cbn [concat]. reflexivity. }
  pose proof (fed_spec_incr kt keys Hne Hs Hw) as Hi. rewrite <- Efed, Ecat in Hi.
  destruct (two_blocks_shape (concat g1) ra rb (concat g2) pa pb K Hi) as (-> & -> & Eg2); [|lia|lia|].
  { intros p Hp. rewrite <- Ecat, Efed in Hp. exact (fed_spec_x_le kt keys p Hne Hs Hw Hp). }
  assert (Hg2 : g2 = []).
  { destruct g2 as [|b g2']; [reflexivity|]. inversion G2'' as [|x l Hb0 _]; subst. destruct b; [contradiction|discriminate Eg2]. }
  subst g2.
  (* the two points *)
  destruct (exists_last Hne) as (ks & a & Ek).
  assert (EK : a = K) by (unfold K; rewrite Ek, last_last; reflexivity). subst a.
  assert (En : n = zlen ks + 1) by (unfold n; rewrite Ek, zlen_app; reflexivity).
  assert (Ef2 : fed = idx_pts ks 0 ++ [(K, n - 1); (K + 1, n)]).
  { rewrite Efed, (fed_spec_ssorted kt keys Hne Hss Hw). fold K. rewrite Ek, <- app_assoc. cbn [app].
    rewrite idx_pts_app. cbn [idx_pts]. replace (0 + zlen ks) with (n - 1) by lia. replace (n - 1 + 1) with n by lia. reflexivity. }
  assert (Epa : pa = (K, n - 1)).
  { apply (incr_x_inj _ _ _ Hi); [apply in_or_app; right; left; reflexivity| |cbn [fst]; lia].
    rewrite <- Ecat, Ef2. apply in_or_app. right. left. reflexivity. }
  assert (Epb : pb = (K + 1, n)).
  { apply (incr_x_inj _ _ _ Hi); [apply in_or_app; right; right; left; reflexivity| |cbn [fst]; lia].
    rewrite <- Ecat, Ef2. apply in_or_app. right. right. left. reflexivity. }
  subst pa pb.
  destruct (tailP_last eps n g1 _ _ G4) as [Hnf|Hlt]; [|cbn in Hlt; lia].
  apply Hnf. cbn [app hdp hd]. replace n with (n - 1 + 1) at 2 by lia.
  pose proof (zlen_ge0 ks). apply pair_feasible; lia.
Qed.
Print Assumptions no_split_tail.

(* IndexProofs.v — arithmetic core of C01/C02/C07: from an eps-feasible segment line to the
   returned range.  The macros PGM_SUB_EPS / PGM_ADD_EPS are the ones regenerated from the source
   (GenLeaf.v), round_div is the model's transcription of the intercept rounding. *)
Require Import Base PlaModel PlaSpec GenLeaf IndexModel.
From Coq Require Import ZifyBool.
Local Open Scope Z_scope.

(* ---- lower_bound restricted to a window ---- *)
Lemma lb_nonneg l q : 0 <= lb l q.
Proof. induction l as [|x t IH]; cbn [lb]; [lia|]. destruct (x <? q); lia. Qed.

Lemma lb_le_len l q : lb l q <= zlen l.
Proof.
  unfold zlen. induction l as [|x t IH]; cbn [lb length]; [lia|].
  destruct (x <? q); lia.
Qed.

Lemma lb_app l1 l2 q :
  lb (l1 ++ l2) q = if lb l1 q =? zlen l1 then zlen l1 + lb l2 q else lb l1 q.
Proof.
  unfold zlen. induction l1 as [|x t IH]; cbn [app lb length].
  - cbn. lia.
  - destruct (x <? q) eqn:E.
    + rewrite IH. pose proof (lb_le_len t q) as H. unfold zlen in H.
      destruct (lb t q =? Z.of_nat (length t)) eqn:E1; destruct (1 + lb t q =? Z.of_nat (S (length t))) eqn:E2; lia.
    + pose proof (Zle_0_nat (length t)). destruct (0 =? Z.of_nat (S (length t))) eqn:E2; lia.
Qed.

(* sortedness as a Prop, and what lb means on a sorted list *)
Lemma sortedb_tail x t : sortedb (x :: t) = true -> sortedb t = true.
Proof. destruct t as [|y t']; cbn [sortedb]; [reflexivity|]. intros H. apply andb_prop in H. tauto. Qed.

Lemma sortedb_head_le x t y : sortedb (x :: t) = true -> In y t -> x <= y.
Proof.
  revert x. induction t as [|z t IH]; intros x Hs Hin; [contradiction|].
  cbn [sortedb] in Hs. apply andb_prop in Hs. destruct Hs as [Hxz Hs].
  destruct Hin as [->|Hin]; [lia|]. specialize (IH z Hs Hin). lia.
Qed.

(* on a sorted list, lb counts exactly the elements < q: everything before position lb is < q, everything from lb on is >= q *)
Lemma lb_spec l q : sortedb l = true ->
  (forall i, 0 <= i < lb l q -> nth (Z.to_nat i) l 0 < q) /\
  (forall i, lb l q <= i < zlen l -> q <= nth (Z.to_nat i) l 0).
Proof.
  unfold zlen. induction l as [|x t IH]; intros Hs.
  - cbn [lb length]. split; intros i Hi; lia.
  - pose proof (sortedb_tail _ _ Hs) as Ht. specialize (IH Ht). destruct IH as [IH1 IH2].
    cbn [lb]. destruct (x <? q) eqn:E.
    + split; intros i Hi.
      * destruct (Z.eq_dec i 0) as [->|Hne]; [cbn; lia|].
        replace (Z.to_nat i) with (S (Z.to_nat (i - 1))) by lia. cbn [nth]. apply IH1. lia.
      * cbn [length] in Hi. pose proof (lb_nonneg t q) as Hnn.
        replace (Z.to_nat i) with (S (Z.to_nat (i - 1))) by lia. cbn [nth]. apply IH2. lia.
    + split; intros i Hi; [lia|].
      destruct (Z.eq_dec i 0) as [->|Hne]; [cbn; lia|].
      cbn [length] in Hi.
      replace (Z.to_nat i) with (S (Z.to_nat (i - 1))) by lia. cbn [nth].
      assert (Hin : In (nth (Z.to_nat (i - 1)) t 0) t) by (apply nth_In; lia).
      pose proof (sortedb_head_le _ _ _ Hs Hin). lia.
Qed.

Lemma lb_skipn l q (k : nat) : sortedb l = true -> Z.of_nat k <= lb l q ->
  lb (skipn k l) q = lb l q - Z.of_nat k.
Proof.
  revert k. induction l as [|x t IH]; intros k Hs Hk.
  - cbn [lb] in *. assert (k = O) by lia. subst. cbn. lia.
  - destruct k as [|k]; [cbn [skipn]; lia|].
    cbn [skipn]. cbn [lb] in *. destruct (x <? q) eqn:E; [|lia].
    rewrite IH; [lia| eapply sortedb_tail; eauto | lia].
Qed.

Lemma lb_firstn l q (k : nat) : lb l q <= Z.of_nat k -> lb (firstn k l) q = lb l q.
Proof.
  revert k. induction l as [|x t IH]; intros k Hk.
  - destruct k; reflexivity.
  - cbn [lb] in *. destruct k as [|k].
    + cbn [firstn lb]. pose proof (lb_nonneg t q). destruct (x <? q); lia.
    + cbn [firstn lb]. destruct (x <? q); [|reflexivity]. rewrite IH; lia.
Qed.

(* C02's wording: if the global lower bound lies inside [lo,hi], the lower_bound restricted to the
   window finds it *)
Theorem lb_range_eq l lo hi q :
  sortedb l = true -> 0 <= lo -> lo <= lb l q -> lb l q <= hi -> hi <= zlen l ->
  lb_range l lo hi q = lb l q.
Proof.
  intros Hs Hlo H1 H2 H3. unfold lb_range, slice.
  rewrite lb_firstn.
  - rewrite lb_skipn; [lia|assumption|lia].
  - rewrite lb_skipn; [lia|assumption|lia].
Qed.

(* and conversely the judge's equation determines the position *)
Lemma C02_pred_b_of_bounds l q a :
  sortedb l = true -> 0 <= a_lo a -> a_lo a <= lb l q -> lb l q <= a_hi a -> a_hi a <= zlen l ->
  C02_pred_b l q a = true.
Proof.
  intros Hs H0 H1 H2 H3. unfold C02_pred_b.
  rewrite (lb_range_eq l (a_lo a) (a_hi a) q Hs H0 H1 H2 H3).
  lia.
Qed.

(* ---- the window arithmetic, on the translated macros ---- *)
Theorem window_present eps n pos r :
  0 <= eps -> 0 <= pos -> 0 <= r < n ->
  r - eps - 1 <= pos <= r + eps ->
  let lo := PGM_SUB_EPS pos eps in
  let hi := PGM_ADD_EPS pos eps n in
  0 <= lo /\ lo <= hi /\ hi <= n /\ hi - lo <= 2 * eps + 2 /\ lo <= pos /\ lo <= r /\ r < hi.
Proof.
  intros He Hp Hr Hpos. unfold PGM_SUB_EPS, PGM_ADD_EPS.
  destruct (pos <=? eps) eqn:E1; destruct (pos + eps + 2 >=? n) eqn:E2; lia.
Qed.

Theorem window_absent eps n pos r :
  0 <= eps -> 0 <= pos -> 0 <= r <= n ->
  r - eps - 2 <= pos <= r + eps ->
  let lo := PGM_SUB_EPS pos eps in
  let hi := PGM_ADD_EPS pos eps n in
  0 <= lo /\ lo <= hi /\ hi <= n /\ hi - lo <= 2 * eps + 2 /\ lo <= pos /\ lo <= r /\ r <= hi.
Proof.
  intros He Hp Hr Hpos. unfold PGM_SUB_EPS, PGM_ADD_EPS.
  destruct (pos <=? eps) eqn:E1; destruct (pos + eps + 2 >=? n) eqn:E2; lia.
Qed.

(* the window never exceeds [0,n] and never is wider than 2eps+2, whatever pos is (C01/C02's shape part) *)
Theorem window_shape eps n pos :
  0 <= eps -> 0 <= pos -> 0 <= n ->
  let lo := PGM_SUB_EPS pos eps in
  let hi := PGM_ADD_EPS pos eps n in
  0 <= lo /\ hi <= n /\ hi - lo <= 2 * eps + 2 /\ lo <= pos.
Proof.
  intros He Hp Hn. unfold PGM_SUB_EPS, PGM_ADD_EPS.
  destruct (pos <=? eps) eqn:E1; destruct (pos + eps + 2 >=? n) eqn:E2; lia.
Qed.

(* ---- from a feasible line to the predicted position ---- *)
Ltac Zify.zify_post_hook ::= Z.quot_rem_to_equations.

Lemma round_div_half n d : 0 < d -> 2 * Z.abs (d * round_div n d - n) <= d.
Proof.
  intros Hd. unfold round_div.
  destruct (n <? 0) eqn:Hn; destruct (d <? 0) eqn:Hd'; try lia; cbn [xorb]; nia.
Qed.

(* `t` is the truncated floating-point product size_t(slope * double(k - key)).  `ev_close` says the
   floating-point product is within 1/2 of the exact dy*(k-key)/dx before truncation (DESIGN 4.2):
   a - 3/2 < t < a + 1/2, cross-multiplied. *)
Definition ev_close (dx dy dk t : Z) : Prop :=
  2 * dy * dk - 3 * dx < 2 * t * dx /\ 2 * t * dx < 2 * dy * dk + dx.

(* A point (k, y) within the band of the segment's maximum-slope line, evaluated as the C++ does:
   pos = t + intercept, intercept = round_div (dy*(key - r1x)) dx + r1y.  Then y-eps-1 <= pos <= y+eps. *)
Theorem pos_from_feasible_line eps r1x r1y dx dy key k y t :
  0 <= eps -> 0 < dx -> 0 <= y ->
  line_in_band eps r1x r1y dx dy (k, y) ->
  band_hi eps y = y + eps ->
  ev_close dx dy (k - key) t ->
  let icpt := round_div (dy * (key - r1x)) dx + r1y in
  y - eps - 1 <= t + icpt <= y + eps.
Proof.
  intros He Hdx Hy Hband Hhi [Hc1 Hc2] icpt.
  unfold line_in_band in Hband. rewrite Hhi in Hband.
  assert (Hlo : (y - eps) * dx <= band_lo eps y * dx).
  { apply Z.mul_le_mono_nonneg_r; [lia|]. unfold band_lo, band, y_size_t; cbn [snd ymin ymax].
    destruct (y <=? 0 + eps) eqn:E; lia. }
  pose proof (round_div_half (dy * (key - r1x)) dx Hdx) as Hr.
  set (rd := round_div (dy * (key - r1x)) dx) in *.
  subst icpt.
  assert (E1 : 2 * dx * (t + (rd + r1y)) = 2 * t * dx + 2 * (dx * rd) + 2 * dx * r1y) by ring.
  split.
  - (* lower *)
    assert (2 * dx * (t + (rd + r1y)) > 2 * dx * (y - eps - 2)) by nia.
    nia.
  - assert (2 * dx * (t + (rd + r1y)) < 2 * dx * (y + eps + 1)) by nia.
    nia.
Qed.

(* the same for the slope-0 segments (one point, or the extra (last+1,0,n) segment): pos = intercept *)
Lemma pos_one_point eps yu yl y :
  0 <= eps -> 0 <= y -> yu = y + eps -> yl = band_lo eps y ->
  y - eps <= Z.quot (yu + yl) 2 <= y + eps.
Proof.
  intros He Hy -> ->. unfold band_lo, band, y_size_t; cbn [snd ymin ymax].
  destruct (y <=? 0 + eps) eqn:E; lia.
Qed.

(* C01 for one query, assembled: a feasible line at the key's first-occurrence point, a float product
   within 1/2, and a cap (min with the next intercept) that does not cut below rank - eps - 1. *)
Theorem C01_core eps n r1x r1y dx dy key k r t cap :
  0 <= eps -> 0 < dx -> 0 <= r < n ->
  line_in_band eps r1x r1y dx dy (k, r) ->
  band_hi eps r = r + eps ->
  ev_close dx dy (k - key) t ->
  r - eps - 1 <= cap ->
  let icpt := round_div (dy * (key - r1x)) dx + r1y in
  let pos := Z.min (t + icpt) cap in
  0 <= pos ->
  let lo := PGM_SUB_EPS pos eps in
  let hi := PGM_ADD_EPS pos eps n in
  lo <= hi /\ hi <= n /\ hi - lo <= 2 * eps + 2 /\ lo <= pos /\ lo <= r /\ r < hi.
Proof.
  intros He Hdx Hr Hband Hhi Hev Hcap icpt pos Hpos lo hi.
  pose proof (pos_from_feasible_line eps r1x r1y dx dy key k r t He Hdx ltac:(lia) Hband Hhi Hev) as Hp.
  cbn zeta in Hp.
  assert (Hpp : r - eps - 1 <= pos <= r + eps) by (subst pos icpt; lia).
  pose proof (window_present eps n pos r He Hpos Hr Hpp) as Hw. cbn zeta in Hw.
  subst lo hi. lia.
Qed.

(* ---- C07: the per-level routing window, on the translated macros ---- *)
(* If the responsible segment j is within eps_r+1 of the predicted position, the scan that starts at
   pos-(eps_r+1) reaches it after reading at most 2*eps_r+3 keys, and the binary-search window
   [lo, hi) contains it. *)
Theorem route_window_scan epsr pos j :
  0 <= epsr -> 0 <= pos -> 0 <= j ->
  pos - (epsr + 1) <= j <= pos + epsr + 1 ->
  let lo := PGM_SUB_EPS pos (epsr + 1) in
  0 <= lo /\ lo <= j /\ (j + 1) - lo <= 2 * epsr + 3.
Proof.
  intros He Hp Hj Hw. unfold PGM_SUB_EPS. destruct (pos <=? epsr + 1) eqn:E; lia.
Qed.

Theorem route_window_bsearch epsr pos j level_size :
  0 <= epsr -> 0 <= pos -> 0 <= j < level_size ->
  pos - (epsr + 1) <= j <= pos + epsr + 1 ->
  let lo := PGM_SUB_EPS pos (epsr + 1) in
  let hi := PGM_ADD_EPS pos epsr level_size in
  lo <= j /\ j < hi /\ hi <= level_size /\ hi - lo <= 2 * epsr + 3.
Proof.
  intros He Hp Hj Hw. unfold PGM_SUB_EPS, PGM_ADD_EPS.
  destruct (pos <=? epsr + 1) eqn:E1; destruct (pos + epsr + 2 >=? level_size) eqn:E2; lia.
Qed.

(* the prediction for a key at an upper level, from the eps_r-feasible line of that level:
   the index j of a segment key fed to the upper level satisfies j-eps_r-1 <= pos <= j+eps_r *)
Theorem route_pos_from_feasible_line epsr r1x r1y dx dy key k j t :
  0 <= epsr -> 0 < dx -> 0 <= j ->
  line_in_band epsr r1x r1y dx dy (k, j) ->
  band_hi epsr j = j + epsr ->
  ev_close dx dy (k - key) t ->
  let icpt := round_div (dy * (key - r1x)) dx + r1y in
  (t + icpt) - (epsr + 1) <= j <= (t + icpt) + epsr + 1.
Proof.
  intros He Hdx Hj Hband Hhi Hev icpt.
  pose proof (pos_from_feasible_line epsr r1x r1y dx dy key k j t He Hdx Hj Hband Hhi Hev) as Hp.
  cbn zeta in Hp. subst icpt. lia.
Qed.

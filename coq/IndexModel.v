(* IndexModel.v — include/pgm/pgm_index.hpp: Segment, PGMIndex::build, segment_for_key, search. *)
Require Import Base Fp PlaModel GenLeaf.
Local Open Scope Z_scope.

Record cfg := mkCfg {
  c_kt : ktype;          (* key type K (integral) *)
  c_eps : Z;             (* Epsilon *)
  c_epsrec : Z;          (* EpsilonRecursive *)
  c_fdouble : bool;      (* Floating = double (true) / float (false) *)
  c_par : Z;             (* min(omp_get_num_procs(), omp_get_max_threads(), 20) at build time *)
  c_avx512 : bool        (* how this build converts an out-of-range double to size_t (UB in C++) *)
}.

Definition sentinel (c : cfg) : Z := kmax (c_kt c).

Record segment := mkSeg { sg_key : Z; sg_slope : f64; sg_icpt : Z }.

Definition sizeof_segment (c : cfg) : Z :=
  kbits (c_kt c) / 8 + (if c_fdouble c then 8 else 4) + 4.        (* #pragma pack(1) *)

(* static_cast<long double>(Slope) then conversion to Floating, kept as a double (exact) *)
Definition slope_to_floating (c : cfg) (s : slp) : f64 :=
  let s80 := div80 (ofZ80 (snd s)) (ofZ80 (fst s)) in
  if c_fdouble c then f80_to_f64 s80 else f32_to_f64 (f80_to_f32 s80).

(* Segment(const CanonicalSegment&) *)
Definition segment_of_cseg (c : cfg) (cs : cseg) : res segment :=
  let key := c_first cs in
  let '(sl, icpt) := cseg_line cs key in
  if icpt >? 2 ^ 32 - 1 then Err ThrowOverflowError
  else if icpt <? 0 then Err ThrowOverflowError
  else
    let slope := if one_point cs then f64_zero else slope_to_floating c sl in
    Ok (mkSeg key slope icpt).

(* size_t(double): in-range values truncate; out-of-range is UB in C++ and is modelled as what the
   instruction sequence emitted by g++ for this target yields (validated by the correspondence) *)
Definition double_to_size_t (c : cfg) (x : f64) : Z :=
  if c_avx512 c then cvtt_u64_avx512 x
  else
    (* comisd 2^63 ; below: cvttsd2si ; above: cvttsd2si(x - 2^63) xor 2^63 *)
    match truncZ x with
    | Some z =>
        if z <? 2 ^ 63 then wrapU 64 (if - 2 ^ 63 <=? z then z else - 2 ^ 63)
        else if z <? 2 ^ 64 then z else 0
    | None => 2 ^ 63
    end.

(* k - key as evaluated inside Segment::operator() *)
Definition key_diff (c : cfg) (k key : Z) : Z :=
  let kt := c_kt c in
  if ksigned kt && ((kbits kt =? 64) || (kbits kt =? 32)) then wrapU (kbits kt) (k - key)
  else if negb (ksigned kt) && (kbits kt >=? 32) then wrapU (kbits kt) (k - key)
  else if ksigned kt && (kbits kt >=? 32) then wrapS (kbits kt) (k - key)
  else k - key.                                        (* 8/16-bit keys: promoted to int, exact *)

(* Segment::operator()(k) *)
Definition seg_eval (c : cfg) (s : segment) (k : Z) : Z :=
  let d := ofZ64 (key_diff c k (sg_key s)) in
  let p := mul64 (sg_slope s) d in
  (* pos >= double(SIZE_MAX / 2), i.e. >= 2^63 (or +inf): saturate *)
  if match truncZ p with Some z => z >=? 2 ^ 63 | None => true end then 2 ^ 63 - 1
  else wrapU 64 (double_to_size_t c p + sg_icpt s).

Record index := mkIndex {
  ix_n : Z;
  ix_first_key : Z;
  ix_segments : list segment;
  ix_offsets : list Z
}.

Fixpoint map_res {A B} (f : A -> res B) (l : list A) : res (list B) :=
  match l with
  | [] => Ok []
  | a :: t => do b <- f a; do bs <- map_res f t; Ok (b :: bs)
  end.

(* build_level: appends the level's segments (+ extra + sentinel) to `segs`, returns n_segments *)
Definition build_level (c : cfg) (eps : Z) (keys : list Z) (last_n : Z) (last_data_key : Z)
           (segs : list segment) : res (list segment * Z) :=
  do r <- make_segmentation_par (c_kt c) par_threshold (c_par c) last_n eps keys;
  let '(css, _, n_segments) := r in
  do new <- map_res (segment_of_cseg c) css;
  let segs1 := segs ++ new in
  let back := last segs1 (mkSeg 0 f64_zero 0) in
  if sg_key back =? sentinel c then Ok (segs1, n_segments - 1)
  else
    let segs2 :=
      if seg_eval c back (wrapK (c_kt c) (sentinel c - 1)) <? last_n
      then segs1 ++ [mkSeg (wrapK (c_kt c) (last_data_key + 1)) f64_zero (wrapU 32 last_n)]
      else segs1 in
    Ok (segs2 ++ [mkSeg (sentinel c) f64_zero (wrapU 32 last_n)], n_segments).

Fixpoint build_upper (c : cfg) (fuel : nat) (last_data_key : Z) (segs : list segment) (offs : list Z) (last_n : Z)
  : res (list segment * list Z) :=
  if (c_epsrec c =? 0) || (last_n <=? 1) then Ok (segs, offs) else
  match fuel with
  | O => Err OutOfFuel
  | S k =>
      let offset := nth (length offs - 2) offs 0 in
      let keys := map sg_key (firstn (Z.to_nat last_n) (skipn (Z.to_nat offset) segs)) in
      do r <- build_level c (c_epsrec c) keys last_n last_data_key segs;
      let '(segs1, last_n1) := r in
      build_upper c k last_data_key segs1 (offs ++ [zlen segs1]) last_n1
  end.

Definition build (c : cfg) (data : list Z) : res index :=
  let n := zlen data in
  let first_key := hd 0 data in
  if n =? 0 then Ok (mkIndex 0 0 [] []) else
  if last_z data =? sentinel c then Err ThrowInvalidArgument else
  do r <- build_level c (c_eps c) data n (last_z data) [];
  let '(segs, last_n) := r in
  do r2 <- build_upper c (length data + 2) (last_z data) segs [0; zlen segs] last_n;
  Ok (mkIndex n first_key (fst r2) (snd r2)).

Definition height (ix : index) : Z := zlen (ix_offsets ix) - 1.
Definition segments_count (ix : index) : Z :=
  match ix_segments ix with [] => 0 | _ => nth 1 (ix_offsets ix) 0 - 1 end.

Definition seg_at (ix : index) (i : Z) : res segment := nth_res (ix_segments ix) i.

(* `for (; std::next(lo)->key <= key; ++lo)`; returns the final lo and the number of segments read *)
Fixpoint linear_scan (ix : index) (fuel : nat) (lo key : Z) : res Z :=
  match fuel with
  | O => Err OutOfFuel
  | S k =>
      do nx <- seg_at ix (lo + 1);
      if sg_key nx <=? key then linear_scan ix k (lo + 1) key else Ok lo
  end.

(* per-level trace entry (hook H2): level, window start (absolute), first and last segment index touched *)
Definition trace := list (Z * Z * Z * Z).

Fixpoint route_levels (c : cfg) (ix : index) (ls : list Z) (it : Z) (key : Z) (tr : trace) : res (Z * trace) :=
  match ls with
  | [] => Ok (it, tr)
  | l :: rest =>
      do level_begin <- nth_res (ix_offsets ix) l;
      do s <- seg_at ix it;
      do nx <- seg_at ix (it + 1);
      let pos := Z.min (seg_eval c s key) (sg_icpt nx) in
      let lo := level_begin + PGM_SUB_EPS pos (c_epsrec c + 1) in
      if c_epsrec c <=? pgm_linear_search_threshold (sizeof_segment c) then
        do it1 <- linear_scan ix (length (ix_segments ix)) lo key;
        route_levels c ix rest it1 key ((l, lo, lo + 1, it1 + 1) :: tr)
      else
        do next_begin <- nth_res (ix_offsets ix) (l + 1);
        let level_size := next_begin - level_begin - 1 in
        let hi := level_begin + PGM_ADD_EPS pos (c_epsrec c) level_size in
        if (lo <? 0) || (hi >? zlen (ix_segments ix)) || (hi <? lo) then Err OutOfBounds else
        let it1 := ub_range (map sg_key (ix_segments ix)) lo hi key - 1 in
        route_levels c ix rest it1 key ((l, lo, lo, hi - 1) :: tr)
  end.

Definition segment_for_key (c : cfg) (ix : index) (key : Z) : res (Z * trace) :=
  if c_epsrec c =? 0 then
    let cnt := segments_count ix in
    Ok (ub_range (map sg_key (ix_segments ix)) 0 cnt key - 1, [])
  else
    do start <- nth_res (ix_offsets ix) (zlen (ix_offsets ix) - 2);
    let h := height ix in
    (* l = height-2 downto 0 *)
    route_levels c ix (rev (zseq 0 (Z.to_nat (h - 1)))) start key [].

Record approx := mkApprox { a_pos : Z; a_lo : Z; a_hi : Z }.

Definition search_tr (c : cfg) (ix : index) (key : Z) : res (approx * trace) :=
  let k := Z.max (ix_first_key ix) key in
  do r <- segment_for_key c ix k;
  let '(it, tr) := r in
  do s <- seg_at ix it;
  do nx <- seg_at ix (it + 1);
  let pos := Z.min (seg_eval c s k) (sg_icpt nx) in
  Ok (mkApprox pos (PGM_SUB_EPS pos (c_eps c)) (PGM_ADD_EPS pos (c_eps c) (ix_n ix)), tr).

Definition search (c : cfg) (ix : index) (key : Z) : res approx :=
  do r <- search_tr c ix key; Ok (fst r).

(* ---- judges: boolean forms of the property predicates (DESIGN 2.3 step 6) ---- *)
(* C01: lo <= hi <= n, hi - lo <= 2eps+2, lo <= pos, first occurrence in [lo,hi) *)
Definition C01_pred_b (eps : Z) (data : list Z) (q : Z) (a : approx) : bool :=
  let n := zlen data in
  (a_lo a <=? a_hi a) && (a_hi a <=? n) && (a_hi a - a_lo a <=? 2 * eps + 2) && (a_lo a <=? a_pos a)
  && (a_lo a <=? lb data q) && (lb data q <? a_hi a).
(* C02: lower_bound restricted to [lo,hi) equals the global lower_bound *)
Definition C02_pred_b (data : list Z) (q : Z) (a : approx) : bool :=
  let n := zlen data in
  (0 <=? a_lo a) && (a_lo a <=? a_hi a) && (a_hi a <=? n) && (lb_range data (a_lo a) (a_hi a) q =? lb data q).

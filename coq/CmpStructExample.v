(* CmpStructExample.v — non-vacuity of cmp_struct_of_build: the theorem applied to two concrete builds
   (u16 / float / 60 keys / EpsilonRecursive 1, two levels; u64 / double / 64 keys / EpsilonRecursive 1, two levels),
   with a vm_compute cross-check of the boolean on the same objects. *)
Require Import Base Fp PlaModel GenLeaf IndexModel CompressedModel CmpCertDefs CmpCertExamples
  CmpStructDefs CmpStructBuild.
Local Open Scope Z_scope.

Definition cp_dummy : compressed := mkCompressed 0 0 f64_zero 0 0 [] [].
Definition built (c : cfg) (d : list Z) : compressed :=
  match compressed_build c d with Ok cp => cp | Err _ => cp_dummy end.

(* the built object is never normalised (its floats carry proof terms): only booleans are evaluated *)
Lemma built_ok c d : is_ok (compressed_build c d) = true -> compressed_build c d = Ok (built c d).
Proof. unfold built. destruct (compressed_build c d); [reflexivity | discriminate]. Qed.

Lemma Forall_of_forallb {A} (f : A -> bool) l : forallb f l = true -> Forall (fun x => f x = true) l.
Proof. intros H. apply Forall_forall. apply forallb_forall. exact H. Qed.

(* ---- A. u16, Epsilon 1, EpsilonRecursive 1, float, 60 keys ---- *)
Definition cA := mkCfg (mkK 16 false) 1 1 false 1 false.
Definition dA := cumsum 0 (map (fun v => 2 ^ ((v / 2 ^ 33) mod 10)) (lcg 60 2 (2 ^ 62))).
Definition cpA := built cA dA.

Example exA_shape : (zlen dA, level_sizes cA dA) = (60, [3; 12]).
Proof. vm_compute. reflexivity. Qed.
Example exA_build : compressed_build cA dA = Ok cpA.
Proof. apply built_ok. vm_compute. reflexivity. Qed.

(* the theorem, instantiated *)
Example exA_struct : cmp_struct_b cA dA cpA = true.
Proof.
  apply (cmp_struct_of_build_std cA dA cpA).
  - reflexivity.
  - cbn. tauto.
  - cbn. lia.
  - cbn. lia.
  - cbn. lia.
  - discriminate.
  - vm_compute. reflexivity.
  - apply Forall_of_forallb. vm_compute. reflexivity.
  - vm_compute. reflexivity.
  - vm_compute. discriminate.
  - vm_compute. discriminate.
  - exact exA_build.
Qed.
(* cross-check by evaluation *)
Example exA_cross : cmp_struct_b cA dA cpA = true.
Proof. vm_compute. reflexivity. Qed.

(* ---- B. u64, Epsilon 1, EpsilonRecursive 1, double, 64 keys with gaps up to 2^39 ---- *)
Definition cB := mkCfg (mkK 64 false) 1 1 true 1 false.
Definition dB := cumsum 0 (map (fun v => 2 ^ ((v / 2 ^ 33) mod 40)) (lcg 64 999 (2 ^ 62))).
Definition cpB := built cB dB.

Example exB_shape : (zlen dB, level_sizes cB dB) = (64, [4; 14]).
Proof. vm_compute. reflexivity. Qed.
Example exB_build : compressed_build cB dB = Ok cpB.
Proof. apply built_ok. vm_compute. reflexivity. Qed.
Example exB_struct : cmp_struct_b cB dB cpB = true.
Proof.
  apply (cmp_struct_of_build cB dB cpB); [|exact exB_build].
  split; [split; [reflexivity | cbn; lia]|]. split; [cbn; lia|]. split; [cbn; lia|]. split; [discriminate|].
  split; [apply Forall_of_forallb; vm_compute; reflexivity|]. split; vm_compute; discriminate.
Qed.
Example exB_cross : cmp_struct_b cB dB cpB = true.
Proof. vm_compute. reflexivity. Qed.

(* the individual conjuncts on example A *)
Example exA_levels : forallb lvl_struct_ok (cp_levels cpA) = true /\ forallb (slope_ok cA) (cp_table cpA) = true.
Proof. split; vm_compute; reflexivity. Qed.
Print Assumptions exA_struct. Print Assumptions exB_struct.

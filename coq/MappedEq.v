(* MappedEq.v — C12, gap (B): for BOTH Floating types, the index read back from the file is EQUAL (as a
   Coq value, slopes included) to the index that was written, whenever the slopes are canonical
   (MappedWf.slope_canon; every built index, MappedWf.canon_index_of_build).  Hence `index_eq` — the
   field-by-field relation of MappedFile.v that compares slopes through their bit patterns — implies
   equal answers to every query on canonical indexes. *)
Require Import Base Fp PlaModel GenLeaf IndexModel IndexProofs MappedModel MappedFile MappedSlopes MappedWf.
From Coq Require Import ZifyBool.
From Flocq Require Import IEEE754.BinarySingleNaN.
Local Open Scope Z_scope.

(* ---------- slopes ---------- *)
Definition slopes_canon (c : cfg) (ix : index) : Prop :=
  Forall (fun s => slope_canon c (sg_slope s)) (ix_segments ix).

Lemma canon_index_slopes c ix : canon_index c ix -> slopes_canon c ix.
Proof.
  intros H. unfold slopes_canon. eapply Forall_impl; [|exact (ci_segments c ix H)].
  intros s (_ & _ & Hs). exact Hs.
Qed.

(* on canonical slopes the bit pattern determines the value *)
Theorem slope_bits_inj c x1 x2 : slope_canon c x1 -> slope_canon c x2 ->
  slope_bits c x1 = slope_bits c x2 -> x1 = x2.
Proof.
  intros H1 H2 E. rewrite <- (slope_canon_reread c x1 H1), <- (slope_canon_reread c x2 H2), E. reflexivity.
Qed.

(* what load decodes from the pattern of a finite slope is canonical, whatever double was written *)
Lemma reread_slope_canon c x : slope_finite c x = true -> slope_canon c (bits_slope c (slope_bits c x)).
Proof.
  unfold slope_finite, slope_canon. destruct (c_fdouble c) eqn:Hc; intros Hf.
  - rewrite bits_slope_slope_bits_double by assumption. exact Hf.
  - rewrite bits_slope_slope_bits_float by assumption. exists (f64_to_f32 x). split; [exact Hf | reflexivity].
Qed.

Lemma reread_index_slopes_canon c ix : wf_index_fin c ix -> slopes_canon c (reread_index c ix).
Proof.
  intros [_ _ _ _ Hs _]. unfold slopes_canon, reread_index. cbn [ix_segments].
  rewrite Forall_map. eapply Forall_impl; [|exact Hs]. intros s (_ & _ & Hf).
  unfold reread_segment. cbn [sg_slope]. apply reread_slope_canon. exact Hf.
Qed.

(* ---------- segments, indexes ---------- *)
Lemma seg_eq_canon c s1 s2 : slope_canon c (sg_slope s1) -> slope_canon c (sg_slope s2) ->
  seg_eq c s1 s2 -> s1 = s2.
Proof.
  intros H1 H2 (Ek & Ei & Es). destruct s1 as [k1 x1 i1], s2 as [k2 x2 i2]. cbn [sg_key sg_slope sg_icpt] in *.
  subst k2 i2. f_equal. exact (slope_bits_inj c x1 x2 H1 H2 Es).
Qed.

Lemma segs_eq_canon c l1 : forall l2,
  Forall (fun s => slope_canon c (sg_slope s)) l1 -> Forall (fun s => slope_canon c (sg_slope s)) l2 ->
  Forall2 (seg_eq c) l1 l2 -> l1 = l2.
Proof.
  induction l1 as [|s1 t1 IH]; intros l2 H1 H2 HF; inversion HF; subst; [reflexivity|].
  inversion H1; inversion H2; subst. f_equal; [apply (seg_eq_canon c); assumption | apply IH; assumption].
Qed.

Theorem index_eq_canon c ix1 ix2 : slopes_canon c ix1 -> slopes_canon c ix2 ->
  index_eq c ix1 ix2 -> ix1 = ix2.
Proof.
  intros H1 H2 (En & Ef & Eo & Es). destruct ix1 as [n1 f1 s1 o1], ix2 as [n2 f2 s2 o2].
  unfold slopes_canon in *. cbn [ix_n ix_first_key ix_segments ix_offsets] in *. subst n2 f2 o2.
  f_equal. exact (segs_eq_canon c s1 s2 H1 H2 Es).
Qed.

(* gap (B): index_eq gives equal answers (and equal traces) *)
Theorem index_eq_search_tr c ix1 ix2 : slopes_canon c ix1 -> slopes_canon c ix2 -> index_eq c ix1 ix2 ->
  forall q, search_tr c ix1 q = search_tr c ix2 q.
Proof. intros H1 H2 He q. rewrite (index_eq_canon c ix1 ix2 H1 H2 He). reflexivity. Qed.

Theorem index_eq_search c ix1 ix2 : slopes_canon c ix1 -> slopes_canon c ix2 -> index_eq c ix1 ix2 ->
  forall q, search c ix1 q = search c ix2 q.
Proof. intros H1 H2 He q. rewrite (index_eq_canon c ix1 ix2 H1 H2 He). reflexivity. Qed.

(* the hypothesis on the slopes cannot be dropped for Floating = float: two doubles that round to the
   same float have the same pattern, and Segment::operator() multiplies by the double *)

(* ---------- load (serialize ix keys) = (ix, keys), both Floating types ---------- *)
Lemma reread_index_canon c ix : Forall (seg_canon c) (ix_segments ix) -> reread_index c ix = ix.
Proof.
  intros H. unfold reread_index. destruct ix as [n fk segs offs]. cbn [ix_n ix_first_key ix_segments ix_offsets] in *.
  f_equal. apply map_id_on. eapply Forall_impl; [|exact H]. exact (seg_canon_reread c).
Qed.

Theorem load_serialize_canon c ix keys :
  canon_index c ix -> wf_keys c keys -> ix_n ix = zlen keys ->
  load c (serialize c ix keys) = Ok (ix, keys).
Proof.
  intros Hci Hk Hn.
  destruct (load_serialize_finite c ix keys (canon_index_fin c ix Hci) Hk Hn) as [Hl _].
  rewrite Hl, (reread_index_canon c ix (ci_segments c ix Hci)). reflexivity.
Qed.

(* ---------- the queries depend on the index and the data only ---------- *)
Lemma mapped_queries_ext c m r : mp_ix r = mp_ix m -> mp_data r = mp_data m ->
  forall q, mapped_lower_bound c r q = mapped_lower_bound c m q /\
            mapped_upper_bound c r q = mapped_upper_bound c m q /\
            mapped_count c r q = mapped_count c m q /\
            mapped_contains c r q = mapped_contains c m q.
Proof.
  intros Ei Ed q.
  unfold mapped_count, mapped_upper_bound, mapped_lower_bound, mapped_contains, mapped_range.
  rewrite Ei, Ed. repeat split; reflexivity.
Qed.

(* the same from index_eq, for canonical indexes *)
Theorem mapped_queries_index_eq c m r :
  slopes_canon c (mp_ix r) -> slopes_canon c (mp_ix m) -> index_eq c (mp_ix r) (mp_ix m) ->
  mp_data r = mp_data m ->
  forall q, mapped_lower_bound c r q = mapped_lower_bound c m q /\
            mapped_upper_bound c r q = mapped_upper_bound c m q /\
            mapped_count c r q = mapped_count c m q /\
            mapped_contains c r q = mapped_contains c m q.
Proof. intros H1 H2 He Ed. apply mapped_queries_ext; [exact (index_eq_canon c _ _ H1 H2 He) | exact Ed]. Qed.

Print Assumptions slope_bits_inj.
Print Assumptions index_eq_search.
Print Assumptions load_serialize_canon.
Print Assumptions mapped_queries_index_eq.

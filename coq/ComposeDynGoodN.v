(* ComposeDynGoodN.v -- ComposeDynGood.v for a level-size bound N (ComposeDynN.v): the premise level_goodN
   of ihistN derived from what a caller controls: the inserted keys are values of the key type, and the
   capacity of the used levels is at most N. *)
Require Import Base Fp PlaModel GenLeaf IndexModel IndexProofs IdxFed IdxChain DynModel DynSpec DynExec
  DynCoreLemmas DynCoreInv DynCoreRefine DynCoreQuery DynCore DynIter ComposeIdx ComposeBuild ComposeDyn
  ComposeDynGood ComposeDynN.
From Coq Require Import ZifyBool.
Local Open Scope Z_scope.

(* capacity: every used level holds at most N items (the capacity of level i is 2^(i * ceil_log2 base),
   DynCoreLemmas.max_size_pow; the buffer levels together hold less than the first level above them) *)
Definition capN {P} (N : Z) (d : @dyn P) : Prop := 2 ^ (d_used d * ceil_log2 (d_base d)) <= N.

Lemma capN_mono {P} N N' (d : @dyn P) : N <= N' -> capN N d -> capN N' d.
Proof. unfold capN. lia. Qed.

Lemma cap30_capN {P} (d : @dyn P) : cap30 d -> capN (2 ^ 30) d.
Proof. unfold cap30, capN. intros H. apply Z.pow_le_mono_r; [lia|exact H]. Qed.

Lemma capN_levels {P} (ops : pgmops P) kmax N (d : @dyn P) i l :
  DynCoreInv.Inv ops kmax d -> capN N d -> level d i = Ok l -> zlen l <= N.
Proof.
  intros HI Hs Hl. unfold capN in Hs.
  pose proof (wf_levels_order ops d (iv_wf _ _ d HI)) as [H0 _].
  pose proof (wf_levels_len ops d (iv_wf _ _ d HI)) as [Hl1 _].
  pose proof (iv_b _ _ d HI) as Hb.
  assert (Hpow : forall j, 0 <= j <= d_used d -> dyn_max_size (d_base d) j <= N).
  { intros j Hj. rewrite max_size_pow.
    assert (2 ^ (j * ceil_log2 (d_base d)) <= 2 ^ (d_used d * ceil_log2 (d_base d)))
      by (apply Z.pow_le_mono_r; [lia|nia]). lia. }
  assert (HN0 : 0 <= N).
  { assert (0 < 2 ^ (d_used d * ceil_log2 (d_base d))) by (apply Z.pow_pos_nonneg; nia). lia. }
  destruct (Z_le_dec (d_used d) i) as [Hge|Hlt].
  - assert (l = []). { eapply lp_unused; [apply HI| |eauto]. lia. } subst. cbn. lia.
  - apply level_nth_error in Hl as Hr. destruct Hr as [Hr _].
    destruct (Z.eq_dec i (d_min_level d)) as [->|Hne].
    + pose proof (lp_buffer ops d (wf_lsm ops d (iv_wf _ _ d HI)) l Hl) as Hbuf.
      rewrite (iv_bufmax _ _ d HI) in Hbuf.
      pose proof (buffer_sum_geom (d_base d) (Z.to_nat (d_min_level d + 1)) Hb) as Hg.
      rewrite Z2Nat.id in Hg by lia. specialize (Hpow (d_min_level d + 1) ltac:(lia)). lia.
    + pose proof (lp_sizes ops d (wf_lsm ops d (iv_wf _ _ d HI)) i l ltac:(lia) Hl).
      specialize (Hpow i ltac:(lia)). lia.
Qed.

(* level_goodN from typed keys and capacity *)
Lemma level_goodN_of (ops : pgmops index) c kmax N (d : @dyn index) :
  DynCoreInv.Inv ops kmax d -> capN N d ->
  itemsQ (fun e => in_ktype (c_kt c) (it_key e) = true) d -> level_goodN N c d.
Proof.
  intros HI Hc Hq. unfold level_goodN. apply Forall_forall. intros l Hl.
  destruct (In_nth_res _ _ Hl) as (i & Hi & Ei).
  assert (Hlev : level d (i + d_min_level d) = Ok l).
  { unfold level. replace (i + d_min_level d - d_min_level d) with i by lia. exact Ei. }
  unfold goodbN. apply andb_true_intro. split.
  - apply forallb_forall. intros x Hx. apply in_map_iff in Hx. destruct Hx as (e & <- & He).
    exact (Hq _ _ _ Hlev He).
  - pose proof (capN_levels ops kmax N d _ l HI Hc Hlev) as Hz.
    assert (zlen (map it_key l) = zlen l) by (unfold zlen; rewrite map_length; reflexivity). lia.
Qed.

(* histories whose keys are values of the key type and whose used levels hold at most N items *)
Inductive thistN (N : Z) (c : cfg) : @dyn index -> amap -> Prop :=
| th_ctorN : forall tomb base bl il d,
    ctor_ok base bl il -> dyn_ctor tomb (sentinel c) base bl il = Ok d -> thistN N c d []
| th_bulkN : forall tomb pairs base bl il d,
    bulk_ok base bl il pairs ->
    Forall (fun p => in_ktype (c_kt c) (fst p) = true) pairs -> Forall (fun p => fst p < sentinel c) pairs ->
    dyn_bulk (idx_ops c) tomb (sentinel c) pairs base bl il = Ok d -> capN N d ->
    thistN N c d (am_bulk pairs)
| th_insN : forall d m k v d',
    thistN N c d m -> size_ok d -> in_ktype (c_kt c) k = true -> k < sentinel c ->
    insert_or_assign (idx_ops c) d k v = Ok d' -> capN N d' -> thistN N c d' (am_insert k v m)
| th_delN : forall d m k d',
    thistN N c d m -> size_ok d -> in_ktype (c_kt c) k = true -> k < sentinel c ->
    erase (idx_ops c) d k = Ok d' -> capN N d' -> thistN N c d' (am_erase k m).

Lemma thistN_mono N N' c d m : N <= N' -> thistN N c d m -> thistN N' c d m.
Proof.
  intros HNN. induction 1.
  - eapply th_ctorN; eassumption.
  - eapply th_bulkN; try eassumption. eapply capN_mono; eassumption.
  - eapply th_insN; try eassumption. eapply capN_mono; eassumption.
  - eapply th_delN; try eassumption. eapply capN_mono; eassumption.
Qed.

Theorem thistN_ihistN N c d m : thistN N c d m ->
  ihistN N c d m /\ itemsQ (fun e => in_ktype (c_kt c) (it_key e) = true) d.
Proof.
  set (Q := fun e : item => in_ktype (c_kt c) (it_key e) = true).
  assert (Hstep : forall d m x d', ihistN N c d m -> itemsQ Q d -> size_ok d -> Q x ->
            insert (idx_ops c) d x = Ok d' -> itemsQ Q d').
  { intros d0 m0 x d1 Hh Hq Hsz Hx Hi.
    pose proof (ghist_Inv (idx_ops c) (sentinel c) (idx_Hempty c) d0 m0 (ihist_ghistN N c d0 m0 Hh)) as HI.
    exact (itemsQ_insert (idx_ops c) (sentinel c) Q d0 x d1 HI Hsz Hq Hx Hi). }
  induction 1 as [tomb base bl il d Hc Hd | tomb pairs base bl il d Hb Hk1 Hk2 Hd Hcap
                  | d m k v d' Hh [IH1 IH2] Hsz Hk1 Hk2 Hi Hcap | d m k d' Hh [IH1 IH2] Hsz Hk1 Hk2 Hi Hcap].
  - split; [eapply ih_ctorN; eassumption|]. exact (itemsQ_ctor Q _ _ _ _ _ d Hd).
  - pose proof (itemsQ_bulk (idx_ops c) (fun k => in_ktype (c_kt c) k = true) _ _ _ _ _ _ d Hk1 Hd) as Hq.
    split; [|exact Hq]. eapply ih_bulkN; try eassumption.
    apply (level_goodN_of (idx_ops c) c (sentinel c)); [|exact Hcap|exact Hq].
    apply (ghist_Inv (idx_ops c) (sentinel c) (idx_Hempty c) d (am_bulk pairs)). eapply gh_bulk; eassumption.
  - assert (Hq : itemsQ Q d').
    { unfold insert_or_assign in Hi. destruct (match d_tomb d with Some t => v =? t | None => false end); [discriminate|].
      exact (Hstep d m (mkItem k (Some v)) d' IH1 IH2 Hsz Hk1 Hi). }
    split; [|exact Hq]. eapply ih_insN; try eassumption.
    apply (level_goodN_of (idx_ops c) c (sentinel c)); [|exact Hcap|exact Hq].
    apply (ghist_Inv (idx_ops c) (sentinel c) (idx_Hempty c) d' (am_insert k v m)).
    eapply gh_ins; try eassumption. apply (ihist_ghistN N). exact IH1.
  - assert (Hq : itemsQ Q d') by exact (Hstep d m (mkItem k None) d' IH1 IH2 Hsz Hk1 Hi).
    split; [|exact Hq]. eapply ih_delN; try eassumption.
    apply (level_goodN_of (idx_ops c) c (sentinel c)); [|exact Hcap|exact Hq].
    apply (ghist_Inv (idx_ops c) (sentinel c) (idx_Hempty c) d' (am_erase k m)).
    eapply gh_del; try eassumption. apply (ihist_ghistN N). exact IH1.
Qed.

(* ---------------- C05 / C06 / C15 for DynamicPGMIndex over the concrete PGMIndex, levels of at most N keys ---------------- *)
Section DynTypedN.
  Variable N : Z.
  Hypothesis HN0 : 0 <= N.
  Hypothesis HN : N <= 2 ^ 30.
  Variable c : cfg.
  Hypothesis Hc : idx_ok c.
  Hypothesis Hf : float_ok_cap_valid_on c N.
  Hypothesis Hsm : cfg_small c.
  Variables (d : @dyn index) (m : amap).
  Hypothesis Hh : thistN N c d m.
  Hypothesis Hsz : DynCoreQuery.sizes_ok d.

  Let Hi := proj1 (thistN_ihistN N c d m Hh).

  Theorem C15_typedN : wf_state (idx_ops c) d /\ lsm_props (idx_ops c) d.
  Proof. exact (C15_ihistN N c d m Hi). Qed.

  Theorem C05_find_typedN q : q < sentinel c ->
    exists r, dfind (idx_ops c) d q = Ok r /\ obs r = option_map (fun v => (q, v)) (am_find q m).
  Proof. exact (C05_find_idxN N HN0 HN c Hc Hf Hsm d m Hi Hsz q). Qed.

  Theorem C05_count_typedN q : q < sentinel c ->
    count (idx_ops c) d q = Ok (match am_find q m with Some _ => 1 | None => 0 end).
  Proof. exact (C05_count_idxN N HN0 HN c Hc Hf Hsm d m Hi Hsz q). Qed.

  Theorem C05_lower_bound_typedN q : q < sentinel c ->
    exists r, lower_bound (idx_ops c) d q = Ok r /\ obs r = am_lower_bound q m.
  Proof. exact (C05_lower_bound_idxN N HN0 HN c Hc Hf Hsm d m Hi Hsz q). Qed.

  Theorem C06_range_typedN lo hi : lo <= hi -> hi < sentinel c -> range (idx_ops c) d lo hi = Ok (am_range lo hi m).
  Proof. exact (C06_range_idxN N HN0 HN c Hc Hf Hsm d m Hi Hsz lo hi). Qed.

  Theorem C06_iter_typedN q : q < sentinel c ->
    exists r, lower_bound (idx_ops c) d q = Ok r /\ to_list_from (idx_ops c) d (iter_of r) = Ok (am_from q m).
  Proof. exact (C06_iter_idxN N HN0 HN c Hc Hf Hsm d m Hi Hsz q). Qed.

  Theorem C06_size_typedN kmin_ : kmin_ < sentinel c -> Forall (fun p => kmin_ <= fst p) m ->
    dyn_size (idx_ops c) d kmin_ = Ok (zlen m).
  Proof. exact (C06_size_idxN N HN0 HN c Hc Hf Hsm d m Hi Hsz kmin_). Qed.

  Theorem C06_empty_typedN kmin_ : kmin_ < sentinel c -> Forall (fun p => kmin_ <= fst p) m ->
    dyn_empty (idx_ops c) d kmin_ = Ok (match m with [] => true | _ => false end).
  Proof. exact (C06_empty_idxN N HN0 HN c Hc Hf Hsm d m Hi Hsz kmin_). Qed.
End DynTypedN.

(* the histories of ComposeDynGood.v are those with N = 2^30 *)
Lemma thist_thistN c d m : thist c d m -> thistN (2 ^ 30) c d m.
Proof.
  induction 1.
  - eapply th_ctorN; eassumption.
  - eapply th_bulkN; try eassumption. apply cap30_capN. assumption.
  - eapply th_insN; try eassumption. apply cap30_capN. assumption.
  - eapply th_delN; try eassumption. apply cap30_capN. assumption.
Qed.

Print Assumptions thistN_ihistN.
Print Assumptions C05_find_typedN.
Print Assumptions C06_iter_typedN.

(* DynModel.v — include/pgm/pgm_index_dynamic.hpp: DynamicPGMIndex (insert / pairwise_merge / merge /
   find / lower_bound / range / begin / end / size / empty), Iterator and LoserTree.
   The per-level PGM-index is a parameter (record pgmops): the theorems assume only its search contract,
   the executable instance plugs in IndexModel. *)
Require Import Base GenLeaf.
Local Open Scope Z_scope.

Record item := mkItem { it_key : Z; it_val : option Z }.       (* None = tombstone *)
Definition deleted (i : item) : bool := match it_val i with None => true | Some _ => false end.

Record pgmops (P : Type) := mkOps {
  pg_build : list Z -> res P;            (* PGMType(first, last) over the level's keys *)
  pg_empty : P;                          (* PGMType() *)
  pg_search : P -> Z -> res (Z * Z)      (* (lo, hi) of PGMType::search *)
}.
Arguments pg_build {P}. Arguments pg_empty {P}. Arguments pg_search {P}.

Section Dyn.
Context {P : Type} (ops : pgmops P).

Record dyn := mkDyn {
  d_base : Z;
  d_min_level : Z;
  d_min_index_level : Z;
  d_buffer_max : Z;
  d_used : Z;                         (* used_levels *)
  d_levels : list (list item);        (* (i - min_level)th element = level i *)
  d_pgms : list P;                    (* (i - min_index_level)th element = index of level i *)
  d_tomb : option Z;                  (* reserved mapped value of ItemA with arithmetic V; None for ItemB / pointers *)
  d_kmax : Z                          (* numeric_limits<K>::max() *)
}.

Definition level (d : dyn) (i : Z) : res (list item) := nth_res (d_levels d) (i - d_min_level d).
Definition pgm (d : dyn) (i : Z) : res P := nth_res (d_pgms d) (i - d_min_index_level d).
Definition has_pgm (d : dyn) (i : Z) : bool := i >=? d_min_index_level d.
Definition max_size (d : dyn) (i : Z) : Z := dyn_max_size (d_base d) i.

Fixpoint set_nth {A} (l : list A) (n : nat) (a : A) : list A :=
  match l, n with
  | [], _ => []
  | _ :: t, O => a :: t
  | x :: t, S k => x :: set_nth t k a
  end.
Definition set_level (d : dyn) (i : Z) (l : list item) : res dyn :=
  let j := i - d_min_level d in
  if (j <? 0) || (j >=? zlen (d_levels d)) then Err OutOfBounds
  else Ok (mkDyn (d_base d) (d_min_level d) (d_min_index_level d) (d_buffer_max d) (d_used d)
                 (set_nth (d_levels d) (Z.to_nat j) l) (d_pgms d) (d_tomb d) (d_kmax d)).
Definition set_pgm (d : dyn) (i : Z) (p : P) : res dyn :=
  let j := i - d_min_index_level d in
  if (j <? 0) || (j >=? zlen (d_pgms d)) then Err OutOfBounds
  else Ok (mkDyn (d_base d) (d_min_level d) (d_min_index_level d) (d_buffer_max d) (d_used d)
                 (d_levels d) (set_nth (d_pgms d) (Z.to_nat j) p) (d_tomb d) (d_kmax d)).
Definition set_used (d : dyn) (u : Z) : dyn :=
  mkDyn (d_base d) (d_min_level d) (d_min_index_level d) (d_buffer_max d) u (d_levels d) (d_pgms d) (d_tomb d) (d_kmax d).

(* sum of max_size(j) for j = 0..min_level *)
Fixpoint buffer_sum (base : Z) (js : list Z) : Z :=
  match js with [] => 0 | j :: t => dyn_max_size base j + buffer_sum base t end.

(* DynamicPGMIndex(base, buffer_level, index_level) *)
Definition dyn_ctor (tomb : option Z) (kmax : Z) (base buffer_level index_level : Z) : res dyn :=
  (* base < 2: ceil_log2(base) = 0, so ceil_log_base divides by zero in the member initialisers
     unless both buffer_level and index_level are given *)
  if (base <? 2) && ((buffer_level =? 0) || (index_level =? 0)) then Err UBDivZero
  else if base <? 2 then Err ThrowInvalidArgument
  else
  let min_level := dyn_min_level base buffer_level in
  let min_index_level := dyn_min_index_level base min_level index_level in
  if negb (Z.land base (base - 1) =? 0) then Err ThrowInvalidArgument else
  let buffer_max := buffer_sum base (zseq 0 (Z.to_nat (min_level + 1))) in
  Ok (mkDyn base min_level min_index_level buffer_max min_level
            (repeat [] (Z.to_nat (32 - min_level))) [] tomb kmax).

(* branchless lower bound, statement by statement; fuel = 64 halvings *)
Definition key_at (l : list item) (i : Z) : res Z := do it <- nth_res l i; Ok (it_key it).
Fixpoint lbbl_loop (fuel : nat) (l : list item) (first n x : Z) : res Z :=
  match fuel with
  | O => Err OutOfFuel
  | S k =>
      if n >? 1 then
        let half := n / 2 in
        do kh <- key_at l (first + half);
        lbbl_loop k l (if kh <? x then first + half else first) (n - half) x
      else Ok first
  end.
Definition lower_bound_bl (l : list item) (first last x : Z) : res Z :=
  if first =? last then Ok first else
  do f <- lbbl_loop 70 l first (last - first) x;
  do kf <- key_at l f;
  Ok (f + (if kf <? x then 1 else 0)).

(* merge<SkipDeleted>(first1.., first2..): list 1 is the newer run *)
Fixpoint merge (skip : bool) (a : list item) : list item -> list item :=
  fix merge_b (b : list item) : list item :=
    match a, b with
    | [], _ => b
    | _, [] => a
    | x :: a', y :: b' =>
        if it_key y <? it_key x then y :: merge_b b'
        else if it_key x <? it_key y then x :: merge skip a' b
        else if skip && deleted x then merge skip a' b'
        else x :: merge skip a' b'
    end.

Fixpoint insert_at {A} (l : list A) (n : nat) (a : A) : list A :=
  match n, l with
  | O, _ => a :: l
  | S k, x :: t => x :: insert_at t k a
  | S k, [] => [a]
  end.

(* pairwise_merge(new_item, target, size_hint, insertion_point) *)
Fixpoint merge_levels (d : dyn) (is_ : list Z) (tmp : list item) : res (dyn * list item) :=
  match is_ with
  | [] => Ok (d, tmp)
  | i :: rest =>
      do li <- level d i;
      let can_delete := i =? d_used d - 1 in
      let out := merge can_delete tmp li in
      do d1 <- set_level d i [];
      do d2 <- (if has_pgm d i then set_pgm d1 i (pg_empty ops) else Ok d1);
      merge_levels d2 rest out
  end.

Definition pairwise_merge (d : dyn) (new_item : item) (target ip : Z) : res dyn :=
  do buf <- level d (d_min_level d);
  let tmp := insert_at buf (Z.to_nat ip) new_item in
  do lt <- level d target;
  let merge_limit := if zlen lt =? 0 then wrapU 8 (target - 1) else target in
  do r <- merge_levels d (zseq (1 + d_min_level d) (Z.to_nat (merge_limit - d_min_level d))) tmp;
  let '(d1, out) := r in
  do d2 <- set_level d1 (d_min_level d) [];
  do d3 <- set_level d2 target out;
  if has_pgm d target then
    do p <- pg_build ops (map it_key out);
    set_pgm d3 target p
  else Ok d3.

(* the target-level search loop of insert() *)
Fixpoint find_target (d : dyn) (fuel : nat) (i slots_required : Z) : res (Z * Z) :=
  match fuel with
  | O => Err OutOfFuel
  | S k =>
      if i <? d_used d then
        do li <- level d i;
        let slots_left := max_size d i - zlen li in
        if slots_required <=? slots_left then Ok (i, slots_required)
        else find_target d k (wrapU 8 (i + 1)) (slots_required + zlen li)
      else Ok (i, slots_required)
  end.

Definition insert (d : dyn) (new_item : item) : res dyn :=
  do buf <- level d (d_min_level d);
  do ip <- lower_bound_bl buf 0 (zlen buf) (it_key new_item);
  do hit <- (if ip <? zlen buf then do k <- key_at buf ip; Ok (k =? it_key new_item) else Ok false);
  if hit then set_level d (d_min_level d) (set_nth buf (Z.to_nat ip) new_item)
  else if zlen buf <? d_buffer_max d then
    do d1 <- set_level d (d_min_level d) (insert_at buf (Z.to_nat ip) new_item);
    Ok (set_used d1 (if d_used d =? d_min_level d then d_min_level d + 1 else d_used d))
  else
    do r <- find_target d 300 (d_min_level d + 1) (d_buffer_max d + 1);
    let '(i, _) := r in
    let need_new_level := i =? d_used d in
    let d1 :=
      if need_new_level then
        let dd := set_used d (wrapU 8 (d_used d + 1)) in
        mkDyn (d_base dd) (d_min_level dd) (d_min_index_level dd) (d_buffer_max dd) (d_used dd)
              (d_levels dd ++ [[]])
              (if i - d_min_index_level dd >=? zlen (d_pgms dd) then d_pgms dd ++ [pg_empty ops] else d_pgms dd)
              (d_tomb dd) (d_kmax dd)
      else d in
    pairwise_merge d1 new_item i ip.

Definition insert_or_assign (d : dyn) (k v : Z) : res dyn :=
  if match d_tomb d with Some t => v =? t | None => false end then Err ThrowInvalidArgument
  else insert d (mkItem k (Some v)).
Definition erase (d : dyn) (k : Z) : res dyn := insert d (mkItem k None).

(* bulk-load constructor *)
Fixpoint dedup_sorted (prev : Z) (l : list (Z * Z)) : res (list item) :=
  match l with
  | [] => Ok []
  | (k, v) :: t =>
      if k <? prev then Err ThrowInvalidArgument
      else if k =? prev then dedup_sorted prev t
      else do r <- dedup_sorted k t; Ok (mkItem k (Some v) :: r)
  end.

Definition check_values (tomb : option Z) (l : list item) : bool :=
  match tomb with
  | None => false
  | Some t => existsb (fun i => match it_val i with Some v => v =? t | None => false end) l
  end.

Definition dyn_bulk (tomb : option Z) (kmax : Z) (pairs : list (Z * Z)) (base buffer_level index_level : Z) : res dyn :=
  do d0 <- dyn_ctor tomb kmax base buffer_level index_level;
  let n := zlen pairs in
  let used := wrapU 8 (Z.max (dyn_ceil_log_base base n) (d_min_level d0) + 1) in
  let nlevels := wrapU 8 (Z.max used 32) - d_min_level d0 + 1 in
  let levels0 := repeat [] (Z.to_nat nlevels) in
  let d1 := mkDyn (d_base d0) (d_min_level d0) (d_min_index_level d0) (d_buffer_max d0) used levels0 [] tomb kmax in
  match pairs with
  | [] => Ok (set_used d1 (d_min_level d0))
  | (k0, v0) :: tl =>
      (* Item(first->first, first->second) throws for a reserved value as soon as it is reached *)
      do rest <- dedup_sorted k0 tl;
      let items := mkItem k0 (Some v0) :: rest in
      if check_values tomb items then Err ThrowInvalidArgument else
      do d2 <- set_level d1 (used - 1) items;
      if has_pgm d2 (used - 1) then
        let d3 := mkDyn (d_base d2) (d_min_level d2) (d_min_index_level d2) (d_buffer_max d2) (d_used d2) (d_levels d2)
                        (repeat (pg_empty ops) (Z.to_nat (used - d_min_index_level d2))) tomb kmax in
        do p <- pg_build ops (map it_key items);
        set_pgm d3 (used - 1) p
      else Ok d2
  end.

(* the [first,last) window of a level for a key: through the level's index when it has one *)
Definition level_window (d : dyn) (i : Z) (li : list item) (key : Z) : res (Z * Z) :=
  if has_pgm d i then
    do p <- pgm d i;
    do r <- pg_search ops p key;
    let '(lo, hi) := r in
    if (lo <? 0) || (hi >? zlen li) || (hi <? lo) then Err OutOfBounds else Ok (lo, hi)
  else Ok (0, zlen li).

(* find(): Some (level, index, item) or None for end() *)
Fixpoint find_levels (d : dyn) (is_ : list Z) (key : Z) : res (option (Z * Z * item)) :=
  match is_ with
  | [] => Ok None
  | i :: rest =>
      do li <- level d i;
      if zlen li =? 0 then find_levels d rest key else
      do w <- level_window d i li key;
      do it <- lower_bound_bl li (fst w) (snd w) key;
      if it <? zlen li then
        do e <- nth_res li it;
        if it_key e =? key then Ok (if deleted e then None else Some (i, it, e))
        else find_levels d rest key
      else find_levels d rest key
  end.
Definition used_range (d : dyn) : list Z := zseq (d_min_level d) (Z.to_nat (d_used d - d_min_level d)).
Definition dfind (d : dyn) (key : Z) : res (option (Z * Z * item)) := find_levels d (used_range d) key.
Definition count (d : dyn) (key : Z) : res Z := do r <- dfind d key; Ok (match r with Some _ => 1 | None => 0 end).

(* lower_bound(): inner scan of one level *)
Fixpoint lb_scan (fuel : nat) (li : list item) (it : Z) (key : Z) (lbk : option Z) (del : list Z)
  : res (list Z * option (Z * item) * bool) :=      (* (deleted set, new candidate, exact hit) *)
  match fuel with
  | O => Err OutOfFuel
  | S k =>
      if it <? zlen li then
        do e <- nth_res li it;
        if match lbk with Some b => it_key e <? b | None => true end then
          if deleted e then lb_scan k li (it + 1) key lbk (it_key e :: del)
          else if negb (existsb (Z.eqb (it_key e)) del) then Ok (del, Some (it, e), it_key e =? key)
          else lb_scan k li (it + 1) key lbk del
        else Ok (del, None, false)
      else Ok (del, None, false)
  end.

Fixpoint lower_bound_levels (d : dyn) (is_ : list Z) (key : Z) (lb_ : option (Z * Z * item)) (del : list Z)
  : res (option (Z * Z * item)) :=
  match is_ with
  | [] => Ok lb_
  | i :: rest =>
      do li <- level d i;
      if zlen li =? 0 then lower_bound_levels d rest key lb_ del else
      do w <- level_window d i li key;
      do it <- lower_bound_bl li (fst w) (snd w) key;
      do r <- lb_scan (S (length li)) li it key (match lb_ with Some (_, _, e) => Some (it_key e) | None => None end) del;
      let '(del1, cand, exact) := r in
      match cand with
      | Some (j, e) => if exact then Ok (Some (i, j, e)) else lower_bound_levels d rest key (Some (i, j, e)) del1
      | None => lower_bound_levels d rest key lb_ del1
      end
  end.
Definition lower_bound (d : dyn) (key : Z) : res (option (Z * Z * item)) :=
  lower_bound_levels d (used_range d) key None [].

(* range(lo, hi) *)
Fixpoint range_levels (d : dyn) (is_ : list Z) (lo hi : Z) (tmp : list item) : res (list item) :=
  match is_ with
  | [] => Ok tmp
  | i :: rest =>
      do li <- level d i;
      if zlen li =? 0 then range_levels d rest lo hi tmp else
      do wl <- level_window d i li lo;
      do wh <- level_window d i li hi;
      do it_lo <- lower_bound_bl li (fst wl) (snd wl) lo;
      let from := Z.max it_lo (fst wh) in
      let to := snd wh in
      let it_hi := if from <=? to then ub_range (map it_key li) from to hi else from in
      if it_hi - it_lo <=? 0 then range_levels d rest lo hi tmp
      else range_levels d rest lo hi (merge false tmp (slice li it_lo it_hi))
  end.
Definition range (d : dyn) (lo hi : Z) : res (list (Z * Z)) :=
  if lo >? hi then Err ThrowInvalidArgument else
  do l <- range_levels d (used_range d) lo hi [];
  Ok (flat_map (fun e => match it_val e with Some v => [(it_key e, v)] | None => [] end) l).

(* ---- LoserTree ---- *)
Definition loser := (Z * Z)%type.     (* (key, source) *)
Record ltree := mkLt { lt_k : Z; lt_losers : list loser }.

Definition lt_get (t : ltree) (i : Z) : res loser := nth_res (lt_losers t) i.
Definition lt_set (t : ltree) (i : Z) (v : loser) : res ltree :=
  if (i <? 0) || (i >=? zlen (lt_losers t)) then Err OutOfBounds
  else Ok (mkLt (lt_k t) (set_nth (lt_losers t) (Z.to_nat i) v)).

(* LoserTree(ik): next_pow2(0) shifts by 64 (UB); x86-64 masks the count, giving 1 *)
Definition lt_new (kmax : Z) (ik : Z) : ltree :=
  let k := wrapU 8 (if ik =? 0 then 1 else next_pow2 ik) in
  let base := repeat (0, 0) (Z.to_nat (2 * k)) in
  (* for (i = ik - 1u; i < k; ++i) losers[i+k] = (max, 255) *)
  let idxs := if ik =? 0 then [] else zseq (ik - 1) (Z.to_nat (k - (ik - 1))) in
  mkLt k (fold_left (fun l i => set_nth l (Z.to_nat (i + k)) (kmax, 255)) idxs base).

Fixpoint init_winner (fuel : nat) (t : ltree) (root : Z) : res (ltree * Z) :=
  match fuel with
  | O => Err OutOfFuel
  | S f =>
      if root >=? lt_k t then Ok (t, root) else
      do r1 <- init_winner f t (2 * root);
      let '(t1, lft) := r1 in
      do r2 <- init_winner f t1 (2 * root + 1);
      let '(t2, rgt) := r2 in
      do lr <- lt_get t2 rgt;
      do ll <- lt_get t2 lft;
      if fst lr >=? fst ll then do t3 <- lt_set t2 root lr; Ok (t3, lft)
      else do t3 <- lt_set t2 root ll; Ok (t3, rgt)
  end.
Definition lt_init (t : ltree) : res ltree :=
  do r <- init_winner 12 t 1;
  do w <- lt_get (fst r) (snd r);
  lt_set (fst r) 0 w.

Fixpoint dmi_loop (fuel : nat) (t : ltree) (pos : Z) (key source : Z) : res (ltree * Z * Z) :=
  match fuel with
  | O => Err OutOfFuel
  | S f =>
      if pos >? 0 then
        do lp <- lt_get t pos;
        if (fst lp <? key) || ((key >=? fst lp) && (snd lp <? source)) then
          do t1 <- lt_set t pos (key, source);
          dmi_loop f t1 (pos / 2) (fst lp) (snd lp)
        else dmi_loop f t (pos / 2) key source
      else Ok (t, key, source)
  end.
(* delete_min_insert(key_ptr): None = nullptr *)
Definition delete_min_insert (kmax : Z) (t : ltree) (key : option Z) : res ltree :=
  do l0 <- lt_get t 0;
  let source := snd l0 in
  let key := match key with Some k => k | None => kmax end in
  do r <- dmi_loop 12 t ((lt_k t + source) / 2) key source;
  let '(t1, k1, s1) := r in
  lt_set t1 0 (k1, s1).
Definition min_source (t : ltree) : res Z := do l0 <- lt_get t 0; Ok (snd l0).

(* ---- Iterator ---- *)
Record cursor := mkCur { cu_level : Z; cu_idx : Z }.
Record iter := mkIter {
  i_cur : option cursor;          (* None = end() *)
  i_init : bool;
  i_unconsumed : Z;
  i_tree : ltree;
  i_its : list cursor
}.
Definition iter_at (c : option cursor) : iter := mkIter c false 0 (mkLt 0 []) [].

Definition cur_item (d : dyn) (c : cursor) : res item :=
  do li <- level d (cu_level c); nth_res li (cu_idx c).

Fixpoint lazy_levels (d : dyn) (is_ : list Z) (curkey : Z) : res (list cursor) :=
  match is_ with
  | [] => Ok []
  | i :: rest =>
      do li <- level d i;
      if zlen li =? 0 then lazy_levels d rest curkey else
      do w <- level_window d i li curkey;
      let pos := ub_range (map it_key li) (fst w) (snd w) curkey in
      do tl <- lazy_levels d rest curkey;
      if pos <? zlen li then Ok (mkCur i pos :: tl) else Ok tl
  end.

Fixpoint insert_starts (d : dyn) (t : ltree) (its : list cursor) (i : Z) : res ltree :=
  match its with
  | [] => Ok t
  | c :: rest =>
      do e <- cur_item d c;
      do t1 <- lt_set t (lt_k t + i) (it_key e, i);
      insert_starts d t1 rest (i + 1)
  end.

Definition lazy_initialize (d : dyn) (it : iter) : res iter :=
  if i_init it then Ok it else
  match i_cur it with
  | None => Err UBDerefEnd                  (* ++ on end(): current.iterator dereferenced *)
  | Some c =>
      do e <- cur_item d c;
      do its <- lazy_levels d (used_range d) (it_key e);
      let t0 := lt_new (d_kmax d) (zlen its) in
      do t1 <- insert_starts d t0 its 0;
      do t2 <- lt_init t1;
      Ok (mkIter (i_cur it) true (zlen its) t2 its)
  end.

(* the `step` lambda of advance(): returns the cursor that was the minimum *)
Definition iter_step (d : dyn) (it : iter) : res (iter * cursor) :=
  do ms <- min_source (i_tree it);
  do c <- nth_res (i_its it) ms;
  do li <- level d (cu_level c);
  let c' := mkCur (cu_level c) (cu_idx c + 1) in
  let its' := set_nth (i_its it) (Z.to_nat ms) c' in
  if cu_idx c' =? zlen li then
    do t <- delete_min_insert (d_kmax d) (i_tree it) None;
    Ok (mkIter (i_cur it) (i_init it) (i_unconsumed it - 1) t its', c)
  else
    do e <- nth_res li (cu_idx c');
    do t <- delete_min_insert (d_kmax d) (i_tree it) (Some (it_key e));
    Ok (mkIter (i_cur it) (i_init it) (i_unconsumed it) t its', c).

(* while (unconsumed_count > 0 && iterators[min_source].iterator->first == tmp.first) step(); *)
Fixpoint skip_equal (fuel : nat) (d : dyn) (it : iter) (key : Z) : res iter :=
  match fuel with
  | O => Err OutOfFuel
  | S f =>
      if i_unconsumed it >? 0 then
        do ms <- min_source (i_tree it);
        do c <- nth_res (i_its it) ms;
        do e <- cur_item d c;
        if it_key e =? key then do r <- iter_step d it; skip_equal f d (fst r) key
        else Ok it
      else Ok it
  end.

Fixpoint advance_loop (fuel : nat) (d : dyn) (it : iter) : res (iter * item * cursor) :=
  match fuel with
  | O => Err OutOfFuel
  | S f =>
      do r <- iter_step d it;
      let '(it1, tmp) := r in
      do e <- cur_item d tmp;
      do it2 <- skip_equal 300 d it1 (it_key e);
      if (i_unconsumed it2 >? 0) && deleted e then advance_loop f d it2
      else Ok (it2, e, tmp)
  end.

Definition total_items (d : dyn) : nat := length (concat (d_levels d)).

Definition advance (d : dyn) (it : iter) : res iter :=
  if i_unconsumed it =? 0 then Ok (iter_at None) else
  do r <- advance_loop (S (total_items d)) d it;
  let '(it1, e, tmp) := r in
  if deleted e then Ok (iter_at None)
  else Ok (mkIter (Some tmp) (i_init it1) (i_unconsumed it1) (i_tree it1) (i_its it1)).

Definition iter_next (d : dyn) (it : iter) : res iter :=
  do it1 <- lazy_initialize d it; advance d it1.

Definition iter_of (r : option (Z * Z * item)) : iter :=
  iter_at (match r with Some (l, i, _) => Some (mkCur l i) | None => None end).

(* begin() = lower_bound(numeric_limits<K>::min()) *)
Definition dyn_begin (d : dyn) (kmin_ : Z) : res iter := do r <- lower_bound d kmin_; Ok (iter_of r).

(* iterate to end(), collecting (key, value) *)
Fixpoint iterate (fuel : nat) (d : dyn) (it : iter) : res (list (Z * Z)) :=
  match fuel with
  | O => Err OutOfFuel
  | S f =>
      match i_cur it with
      | None => Ok []
      | Some c =>
          do e <- cur_item d c;
          do it1 <- iter_next d it;
          do tl <- iterate f d it1;
          Ok ((it_key e, match it_val e with Some v => v | None => -1 end) :: tl)
      end
  end.
Definition to_list_from (d : dyn) (it : iter) : res (list (Z * Z)) := iterate (S (S (total_items d))) d it.
Definition dyn_size (d : dyn) (kmin_ : Z) : res Z := do b <- dyn_begin d kmin_; do l <- to_list_from d b; Ok (zlen l).
Definition dyn_empty (d : dyn) (kmin_ : Z) : res bool := do b <- dyn_begin d kmin_; Ok (match i_cur b with None => true | Some _ => false end).

End Dyn.

(* Effects.v — C16 (the part that is logic): a program whose threads perform no write on shared locations
   is race-free under every interleaving, and every thread computes what it computes when run alone. *)
From Coq Require Import List Arith Bool Lia.
Import ListNotations.

Inductive loc_class := Shared | ThreadLocal.
Record event := mkEv { ev_write : bool; ev_loc : nat; ev_class : loc_class }.
Definition thread := list event.

(* two accesses conflict when they touch the same shared location and at least one is a write *)
Definition conflict (a b : event) : Prop :=
  ev_class a = Shared /\ ev_class b = Shared /\ ev_loc a = ev_loc b /\ (ev_write a = true \/ ev_write b = true).

Definition read_only_thread (t : thread) : Prop :=
  Forall (fun e => ev_class e = Shared -> ev_write e = false) t.

(* an interleaving of the threads: any merge that keeps each thread's program order *)
Inductive interleave : list thread -> list (nat * event) -> Prop :=
| il_done : forall ts, Forall (fun t => t = []) ts -> interleave ts []
| il_step : forall ts i e rest tr,
    nth_error ts i = Some (e :: rest) ->
    interleave (firstn i ts ++ rest :: skipn (S i) ts) tr ->
    interleave ts ((i, e) :: tr).

Lemma nth_error_firstn_lt {A} : forall (l : list A) i j, j < i -> nth_error (firstn i l) j = nth_error l j.
Proof.
  induction l as [|a l IH]; intros i j H; destruct i, j; cbn; try reflexivity; try lia. apply IH. lia.
Qed.
Lemma nth_error_skipn_add {A} : forall (l : list A) i d, nth_error (skipn i l) d = nth_error l (i + d).
Proof.
  induction l as [|a l IH]; intros i d; destruct i; cbn; try reflexivity.
  - destruct d; reflexivity.
  - apply IH.
Qed.

Lemma in_interleave_from_thread : forall ts tr, interleave ts tr ->
  forall i e, In (i, e) tr -> exists t, nth_error ts i = Some t /\ In e t.
Proof.
  intros ts tr H. induction H as [ts Hd | ts i e rest tr Hn Hil IH]; intros j f Hin.
  - contradiction.
  - destruct Hin as [Heq | Hin].
    + injection Heq as <- <-. exists (e :: rest). split; [assumption | left; reflexivity].
    + destruct (IH j f Hin) as [t [Ht Hf]].
      assert (Hlen : i < length ts) by (apply nth_error_Some; congruence).
      destruct (Nat.eq_dec j i) as [-> | Hne].
      * exists (e :: rest). split; [assumption|].
        rewrite nth_error_app2 in Ht by (rewrite firstn_length; lia).
        rewrite firstn_length, Nat.min_l in Ht by lia. rewrite Nat.sub_diag in Ht. cbn in Ht.
        injection Ht as <-. right. assumption.
      * exists t. split; [|assumption].
        destruct (Nat.lt_ge_cases j i) as [Hlt | Hge].
        -- rewrite nth_error_app1 in Ht by (rewrite firstn_length; lia).
           rewrite nth_error_firstn_lt in Ht by lia. assumption.
        -- rewrite nth_error_app2 in Ht by (rewrite firstn_length; lia).
           rewrite firstn_length, Nat.min_l in Ht by lia.
           destruct (j - i) as [|d] eqn:Ed; [lia|]. cbn [nth_error] in Ht.
           rewrite nth_error_skipn_add in Ht. replace (S i + d) with j in Ht by lia. assumption.
Qed.

(* race freedom for every number of threads and every schedule *)
Theorem race_free : forall ts tr,
  Forall read_only_thread ts -> interleave ts tr ->
  forall i a j b, In (i, a) tr -> In (j, b) tr -> ~ conflict a b.
Proof.
  intros ts tr Hro Hil i a j b Ha Hb [Ca [Cb [_ Hw]]].
  destruct (in_interleave_from_thread ts tr Hil i a Ha) as [ta [Hta Hina]].
  destruct (in_interleave_from_thread ts tr Hil j b Hb) as [tb [Htb Hinb]].
  rewrite Forall_forall in Hro.
  assert (Ra : read_only_thread ta) by (apply Hro; eapply nth_error_In; eassumption).
  assert (Rb : read_only_thread tb) by (apply Hro; eapply nth_error_In; eassumption).
  unfold read_only_thread in Ra, Rb. rewrite Forall_forall in Ra, Rb.
  specialize (Ra a Hina Ca). specialize (Rb b Hinb Cb).
  destruct Hw as [Hw | Hw]; congruence.
Qed.

(* values: a read of a shared location returns the shared memory's content; with no shared write the shared
   memory never changes, so each thread's sequence of shared reads is what it reads when run alone *)
Definition shared_mem := nat -> nat.
Definition apply_event (m : shared_mem) (e : event) (v : nat) : shared_mem :=
  match ev_class e, ev_write e with
  | Shared, true => fun l => if Nat.eqb l (ev_loc e) then v else m l
  | _, _ => m
  end.

Theorem shared_memory_unchanged : forall ts tr (m : shared_mem) (vals : list nat),
  Forall read_only_thread ts -> interleave ts tr ->
  forall l, fold_left (fun mm ev => apply_event mm (snd (fst ev)) (snd ev)) (combine tr vals) m l = m l.
Proof.
  intros ts tr m vals Hro Hil l. revert m vals.
  assert (Hall : forall i e, In (i, e) tr -> ev_class e = Shared -> ev_write e = false).
  { intros i e Hin Hc. destruct (in_interleave_from_thread ts tr Hil i e Hin) as [t [Ht Hine]].
    rewrite Forall_forall in Hro. assert (R : read_only_thread t) by (apply Hro; eapply nth_error_In; eassumption).
    unfold read_only_thread in R. rewrite Forall_forall in R. apply R; assumption. }
  clear Hil Hro. induction tr as [|[i e] tr IH]; intros m vals; cbn [combine fold_left]; [reflexivity|].
  destruct vals as [|v vals]; cbn [combine fold_left]; [reflexivity|].
  rewrite IH by (intros i' e' Hin; apply (Hall i' e'); right; assumption).
  cbn [fst snd]. unfold apply_event.
  destruct (ev_class e) eqn:Ec; [|reflexivity].
  rewrite (Hall i e (or_introl eq_refl) Ec). reflexivity.
Qed.

(* IdxSeg.v — what the index proofs need from the segmentation drivers:
   the fed points are increasing in both coordinates, and every emitted segment comes with a
   non-empty block of fed points that lie within eps + 1/2 of its reported line, whose slope is >= 0. *)
Require Import Base PlaModel PlaSpec PlaCert Greedy PlaComplete PlaSoundGeom PlaSoundInv PlaSound IndexProofs IdxFed.
From Coq Require Import ZifyBool.
Local Open Scope Z_scope.

(* strictly increasing in both coordinates, pairwise *)
Definition plt (a b : Z * Z) : Prop := fst a < fst b /\ snd a < snd b.
Fixpoint incr (l : list (Z * Z)) : Prop :=
  match l with [] => True | a :: t => Forall (plt a) t /\ incr t end.

Lemma incr_app l1 l2 :
  incr (l1 ++ l2) <-> incr l1 /\ incr l2 /\ (forall a b, In a l1 -> In b l2 -> plt a b).
Proof.
  induction l1 as [|x l1 IH]; cbn [app incr].
  - split; [intros H; split; [exact I|]; split; [exact H | intros ? ? []] | intros (_ & H & _); exact H].
  - rewrite Forall_app, IH. split.
    + intros ((F1 & F2) & I1 & I2 & I3). split; [split; assumption|]. split; [exact I2|].
      intros a b [<-|Ha] Hb; [rewrite Forall_forall in F2; apply F2; exact Hb | apply I3; assumption].
    + intros ((F1 & I1) & I2 & I3). split; [split; [exact F1|]|split; [exact I1|split; [exact I2|]]].
      * apply Forall_forall. intros b Hb. apply I3; [left; reflexivity | exact Hb].
      * intros a b Ha Hb. apply I3; [right; exact Ha | exact Hb].
Qed.

Lemma W_incr kt l : forall prev nx i,
  sortedb (prev :: l) = true -> nowrap kt l ->
  incr (W kt prev l nx i) /\
  Forall (fun q => prev < fst q /\ hd (fst q) l <= fst q /\ i <= snd q) (W kt prev l nx i).
Proof.
  induction l as [|a tl IH]; intros prev nx i Hs Hw; [split; [exact I | constructor]|].
  assert (Hpa : prev <= a) by (cbn [sortedb] in Hs; lia).
  assert (Hs' : sortedb (a :: tl) = true) by (eapply sortedb_tail; eauto).
  destruct (IH a nx (i + 1) Hs' (fun x Hx => Hw x (or_intror Hx))) as [I1 I2].
  assert (Hrest : Forall (fun q => prev < fst q /\ a <= fst q /\ i <= snd q) (W kt a tl nx (i + 1))).
  { eapply Forall_impl; [|exact I2]. cbn beta. intros q (Hq & _ & Hy). lia. }
  cbn [W hd]. unfold pt1. destruct (a =? prev) eqn:E1.
  - destruct (a + 1 <? hd nx tl) eqn:E2; cbn [app]; [|split; assumption].
    rewrite (Hw a (or_introl eq_refl)). split.
    + cbn [incr]. split; [|exact I1]. destruct tl as [|b tl']; [constructor|].
      cbn [hd] in *. eapply Forall_impl; [|exact I2]. cbn beta. intros q (_ & Hq & Hy). unfold plt. cbn [fst snd]. lia.
    + constructor; [cbn [fst snd]; lia | exact Hrest].
  - cbn [app]. split.
    + cbn [incr]. split; [|exact I1]. eapply Forall_impl; [|exact I2]. cbn beta.
      intros q (Hq & _ & Hy). unfold plt. cbn [fst snd]. lia.
    + constructor; [cbn [fst snd]; lia | exact Hrest].
Qed.

Theorem fed_spec_incr kt data : data <> [] -> sortedb data = true -> nowrap kt data ->
  incr (fed_spec kt data).
Proof.
  intros Hne Hs Hw. rewrite (fed_spec_unfold kt data Hne Hs Hw).
  set (x0 := hd 0 data). set (n := zlen data).
  assert (Hs1 : sortedb ((x0 - 1) :: data) = true).
  { unfold x0. destruct data as [|a tl]; [contradiction|]. cbn [hd].
    change (sortedb (a - 1 :: a :: tl)) with ((a - 1 <=? a) && sortedb (a :: tl)).
    rewrite Hs. lia. }
  destruct (W_incr kt data (x0 - 1) (last data 0) 0 Hs1 Hw) as [X1 _].
  apply incr_app. split; [exact X1|]. split; [cbn [incr]; split; [constructor | exact I]|].
  intros [x y] b Hin [<-|[]]. unfold plt. cbn [fst snd].
  apply W_In in Hin. destruct Hin as (j & Hj & -> & Hp). fold n in Hj.
  pose proof (n_pos kt data Hne Hs Hw) as Hn1. fold n in Hn1.
  apply (PtAt_kind kt data Hne Hs Hw) in Hp; [|exact Hj]. rewrite (last_is data Hne). fold n.
  pose proof (sorted_dat_mono data j (n - 1) Hs ltac:(lia) ltac:(fold n; lia)) as Hm.
  destruct Hp as [[_ ->]|[(A & B & C & D) ->]]; [lia|]. fold n in B.
  pose proof (sorted_dat_mono data (j + 1) (n - 1) Hs ltac:(lia) ltac:(fold n; lia)). lia.
Qed.

(* ---- segments with their blocks: PlaSound's relation plus where r1, r3 come from ---- *)
Definition seg_rel2 (eps : Z) (c : cseg) (b : list (Z * Z)) : Prop :=
  seg_rel eps c b /\
  (one_point c = false ->
   lower_of eps b (c_r1 c) /\ upper_of eps b (c_r3 c) /\ fst (c_r1 c) < fst (c_r3 c)).

Lemma R2_of_inv eps cur s :
  0 <= eps -> cur <> [] -> rect_inv eps cur s -> sinv eps cur s -> seg_rel2 eps (get_segment s) cur.
Proof.
  intros Heps Hne Hrect Hs. split; [apply sinv_seg_rel; assumption|].
  destruct Hrect as (He & Hn & I1 & I2 & _).
  assert (Hlen : 1 <= zlen cur) by (destruct cur; [contradiction|]; rewrite zlen_cons; pose proof (zlen_ge0 cur); lia).
  unfold get_segment. destruct (p_n s =? 1) eqn:E.
  - unfold one_point. cbn [c_r0 c_r1 c_r2 c_r3]. rewrite !pt_eqb_refl. cbn [andb]. discriminate.
  - intros _. cbn [c_r1 c_r3]. assert (H2 : 2 <= p_n s) by lia.
    destruct (I1 ltac:(lia)) as (_ & L1 & _). destruct (I2 H2) as (_ & U3 & _ & H13).
    split; [exact L1|]. split; [exact U3 | exact H13].
Qed.

Section Premises2.
  Variable eps : Z.
  Hypothesis Heps : 0 <= eps.
  Lemma P_R2 : forall cur s,
    cur <> [] -> rect_inv eps cur s -> sinv eps cur s -> seg_rel2 eps (get_segment s) cur.
  Proof. intros cur s. apply R2_of_inv. exact Heps. Qed.
  Lemma P_R2_reject : forall cur s x y s',
    cur <> [] -> rect_inv eps cur s -> sinv eps cur s ->
    add_point y_size_t s x y = Ok (false, s') -> seg_rel2 eps (get_segment s') cur.
  Proof.
    intros cur s x y s' Hne Hr Hs H. rewrite (reject_same_segment s x y s' H).
    apply R2_of_inv; assumption.
  Qed.
End Premises2.

Theorem make_segmentation_par_blocks kt threshold par n eps data segs fed count :
  make_segmentation_par kt threshold par n eps data = Ok (segs, fed, count) ->
  1 <= par -> zlen data <= n -> n + eps < 2 ^ 64 - 1 ->
  exists g, concat g = fed /\ Forall (fun b => b <> []) g /\ Forall2 (seg_rel2 eps) segs g /\
            zlen g = count /\ 0 <= eps.
Proof.
  intros H Hpar Hd Hn. unfold make_segmentation_par in H.
  destruct ((par =? 1) || (n <? threshold)) eqn:Eseq.
  - unfold make_segmentation in H.
    pose proof (eps_nonneg_of_chunk _ _ _ _ _ _ _ H) as Heps.
    destruct (make_segmentation_chunk_greedy eps (feasible eps) (seg_rel2 eps) (sinv eps)
                (P_first eps Heps) (P_step eps Heps) (P_ok eps) (P_R2 eps Heps) (P_R2_reject eps Heps)
                kt n 0 data [] segs fed count H ltac:(lia) ltac:(lia) Hn) as (g & G1 & G2 & _ & G4 & G5).
    exists g. split; [exact G1|]. split; [|split; [exact G5|split; [exact G4|exact Heps]]].
    eapply Forall_impl; [|exact G2]. cbn beta. intros b [Hb _]. exact Hb.
  - assert (Hz : zseq 0 (Z.to_nat par) = 0 :: zseq (0 + 1) (Z.to_nat par - 1)).
    { destruct (Z.to_nat par) as [|k] eqn:Ek; [lia|]. cbn [zseq]. f_equal. f_equal. lia. }
    assert (Heps : 0 <= eps).
    { rewrite Hz in H. exact (par_chunks_eps_nonneg _ _ _ _ _ _ _ _ H). }
    pose proof (zlen_ge0 data) as Hd0.
    assert (Hn0 : 0 <= n) by lia.
    assert (Hcs : 0 <= Z.quot n par) by (apply Z.quot_pos; lia).
    assert (Hmul : par * Z.quot n par <= n) by (apply Z.mul_quot_le; lia).
    destruct (par_chunks_greedy eps (feasible eps) (seg_rel2 eps) (sinv eps)
                (P_first eps Heps) (P_step eps Heps) (P_ok eps) (P_R2 eps Heps) (P_R2_reject eps Heps)
                kt n (Z.quot n par) par data (zseq 0 (Z.to_nat par)) segs fed count H Hcs Hn)
      as (chunks & gs & C1 & C2 & C3 & C4 & C5).
    { eapply Forall_impl; [|exact (zseq_range (Z.to_nat par) 0)].
      intros i Hi. cbn beta in Hi. split; [lia|].
      assert ((i + 1) * Z.quot n par <= par * Z.quot n par).
      { apply Z.mul_le_mono_nonneg_r; lia. }
      lia. }
    destruct (chunk_shape_concat eps chunks gs C2) as [D1 D2].
    exists (concat gs). split; [rewrite D1; exact C1|].
    split; [|split; [exact C5|split; [exact C4|exact Heps]]].
    eapply Forall_impl; [|exact D2]. cbn beta. intros b [Hb _]. exact Hb.
Qed.

Lemma incr_In_lt l p q : incr l -> In p l -> In q l -> fst p < fst q -> snd p < snd q.
Proof.
  induction l as [|a t IH]; intros Hi Hp Hq Hlt; [contradiction|].
  cbn [incr] in Hi. destruct Hi as [Hf Hi]. rewrite Forall_forall in Hf.
  destruct Hp as [<-|Hp]; destruct Hq as [<-|Hq].
  - lia.
  - exact (proj2 (Hf q Hq)).
  - pose proof (proj1 (Hf p Hp)). lia.
  - apply IH; assumption.
Qed.

(* what the index proofs use about one segment and its block *)
Definition line_ok (eps : Z) (c : cseg) (b : list (Z * Z)) : Prop :=
  b <> [] /\ c_first c = fst (hd (0, 0) b) /\
  0 < fst (fst (cseg_line c (c_first c))) /\ 0 <= snd (fst (cseg_line c (c_first c))) /\
  Forall (reported_line_close eps c) b.

Lemma line_ok_of_rel2 eps c b :
  0 <= eps -> b <> [] -> incr b -> Forall (fun p => 0 <= snd p <= 2 ^ 64 - 1) b ->
  seg_rel2 eps c b -> line_ok eps c b.
Proof.
  intros Heps Hne Hi Hr [(Hf & Hcl & _ & _) H2]. unfold line_ok.
  split; [exact Hne|]. split; [exact Hf|].
  assert (Hdx : 0 < fst (fst (cseg_line c (c_first c)))).
  { destruct b as [|p b']; [contradiction|]. inversion Hcl as [|p' b'' Hp _]; subst.
    unfold reported_line_close in Hp. destruct (cseg_line c (c_first c)) as [sl icpt]. destruct p. tauto. }
  split; [exact Hdx|]. split; [|exact Hcl].
  unfold cseg_line. destruct (one_point c) eqn:Eop; cbn [fst snd]; [lia|].
  destruct (H2 eq_refl) as ((y1 & In1 & E1) & (y3 & In3 & E3) & Hx).
  rewrite Forall_forall in Hr.
  pose proof (Hr _ In1) as R1. pose proof (Hr _ In3) as R3. cbn [snd] in R1, R3.
  pose proof (incr_In_lt b _ _ Hi In1 In3 Hx) as Hy. cbn [snd] in Hy.
  unfold psub. cbn [fst snd]. rewrite E1, E3. unfold band_hi, band_lo, band, y_size_t. cbn [fst snd ymin ymax].
  destruct (y3 >=? 2 ^ 64 - 1 - eps); destruct (y1 <=? 0 + eps); lia.
Qed.

Lemma blocks_line_ok eps segs g :
  0 <= eps -> incr (concat g) -> Forall (fun p => 0 <= snd p <= 2 ^ 64 - 1) (concat g) ->
  Forall (fun b => b <> []) g -> Forall2 (seg_rel2 eps) segs g -> Forall2 (line_ok eps) segs g.
Proof.
  intros Heps Hi Hr Hne HR. induction HR as [|c b cs bs Hcb _ IH]; [constructor|].
  cbn [concat] in Hi, Hr. apply incr_app in Hi. destruct Hi as (Ib & Ibs & _).
  apply Forall_app in Hr. destruct Hr as [Rb Rbs].
  inversion Hne as [|b0 bs0 Hb Hbs]; subst.
  constructor; [|apply IH; assumption].
  apply line_ok_of_rel2; assumption.
Qed.

Lemma fed_kind_rank data p : fed_kind data p -> 0 <= snd p <= zlen data.
Proof.
  unfold fed_kind, first_occ, run_end. pose proof (zlen_ge0 data).
  intros [[[H1 _] _]|[[(H1 & H2 & _) _]|[_ H1]]]; lia.
Qed.

Theorem level_blocks kt threshold par eps data css fed cnt :
  make_segmentation_par kt threshold par (zlen data) eps data = Ok (css, fed, cnt) ->
  1 <= par -> data <> [] -> sortedb data = true -> nowrap kt data -> zlen data + eps < 2 ^ 64 - 1 ->
  exists g, concat g = fed_spec kt data /\ Forall2 (line_ok eps) css g /\ zlen g = cnt /\ 0 <= eps.
Proof.
  intros H Hpar Hne Hs Hw Hn.
  destruct (make_segmentation_par_blocks _ _ _ _ _ _ _ _ _ H Hpar ltac:(lia) Hn) as (g & G1 & G2 & G3 & G4 & Heps).
  rewrite (make_segmentation_par_fed _ _ _ _ _ _ _ _ H Hpar) in G1.
  exists g. split; [exact G1|]. split; [|split; [exact G4 | exact Heps]].
  apply blocks_line_ok; try assumption.
  - rewrite G1. apply fed_spec_incr; assumption.
  - rewrite G1. apply Forall_forall. intros p Hp.
    apply (spec_only kt data Hne Hs Hw) in Hp. apply fed_kind_rank in Hp. lia.
Qed.

Print Assumptions level_blocks.

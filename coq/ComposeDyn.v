(* ComposeDyn.v — C05 / C06 / C15 with the concrete per-level index (DynExec.idx_ops): the contract
   DynSpec.pgm_contract discharged by the index contract of ComposeIdx.v.

   pgm_contract quantifies over every list of integers below kmax, while the index contract holds for
   keys that are values of the key type K (in_ktype) in arrays of at most 2^30 elements.  Hence:
   (1) the contract is proved for idx_ops restricted to such lists (idx_contract_on);
   (2) it is proved in full for a guarded variant gops (same index on such lists, a trivial index on
       the others), to which the theorems of DynCore.v / DynIter.v apply;
   (3) the runs of the container over idx_ops and over gops coincide as long as every level of every
       reached state is such a list (level_good), which transfers the theorems to idx_ops. *)
Require Import Base Fp PlaModel GenLeaf IndexModel IndexProofs IdxFed IdxChain DynModel DynSpec DynExec
  DynCoreLemmas DynCoreInv DynCoreRefine DynCoreQuery DynCore DynIter ComposeIdx ComposeBuild.
From Coq Require Import ZifyBool.
Local Open Scope Z_scope.

(* totality of build on its precondition, with the 32-bit size of the segment array: proved in
   ComposeBuild.v for up to 2^30 keys and cfg_small configurations *)
Definition build_ok (c : cfg) : Prop :=
  forall data, data_ok c data -> zlen data <= 2 ^ 30 ->
    exists ix, build c data = Ok ix /\ zlen (ix_segments ix) < 2 ^ 32.

Theorem build_ok_holds c : idx_ok c -> cfg_small c -> build_ok c.
Proof. intros Hc Hsm data Hd Hn. exact (build_total c data Hc Hsm Hd Hn). Qed.

(* lists of keys a level of DynamicPGMIndex<K,V> can hold *)
Definition goodb (c : cfg) (keys : list Z) : bool :=
  forallb (in_ktype (c_kt c)) keys && (zlen keys <=? 2 ^ 30).

Lemma goodb_spec c keys : goodb c keys = true ->
  Forall (fun x => in_ktype (c_kt c) x = true) keys /\ zlen keys <= 2 ^ 30.
Proof.
  unfold goodb. intros H. apply andb_prop in H. destruct H as [H1 H2]. split; [|lia].
  apply Forall_forall. intros x Hx. rewrite forallb_forall in H1. apply H1. exact Hx.
Qed.

Lemma last_lt_of_Forall kmax keys : keys <> [] -> Forall (fun k => k < kmax) keys -> last_z keys < kmax.
Proof. intros Hne H. rewrite Forall_forall in H. apply H. apply last_z_In. exact Hne. Qed.

Lemma good_data_ok c keys : keys <> [] -> ssortedb keys = true -> Forall (fun k => k < sentinel c) keys ->
  goodb c keys = true -> data_ok c keys.
Proof.
  intros Hne Hs Hk Hg. destruct (goodb_spec c keys Hg) as [Hkt Hn]. constructor; try assumption.
  - apply ssortedb_sorted. exact Hs.
  - apply last_lt_of_Forall; assumption.
  - lia.
Qed.

Lemma idx_search_window c keys ix q :
  idx_ok c -> float_ok_valid c -> data_ok c keys -> build c keys = Ok ix -> zlen (ix_segments ix) < 2 ^ 32 ->
  q < sentinel c ->
  exists lo hi, pg_search (idx_ops c) ix q = Ok (lo, hi) /\
    0 <= lo /\ lo <= lb keys q /\ lb keys q <= hi /\ hi <= zlen keys /\ (In q keys -> lb keys q < hi).
Proof.
  intros Hc Hf Hd Hb Hs Hq.
  destruct (search_contract_valid c keys ix q Hc Hf Hd Hb Hs Hq) as (a & Es & H1 & H2 & H3 & _).
  exists (a_lo a), (a_hi a). cbn [pg_search idx_ops]. rewrite Es. cbn [bind].
  split; [reflexivity|]. repeat split; try tauto; lia.
Qed.

(* (1) the contract of the per-level index, on the lists a level can hold *)
Record idx_contract_on (c : cfg) : Prop := mkContractOn {
  pco_build : forall keys, keys <> [] -> ssortedb keys = true -> Forall (fun k => k < sentinel c) keys ->
              goodb c keys = true -> exists p, pg_build (idx_ops c) keys = Ok p;
  pco_search : forall keys p q, pg_build (idx_ops c) keys = Ok p -> keys <> [] -> ssortedb keys = true ->
              goodb c keys = true -> q < sentinel c ->
              exists lo hi, pg_search (idx_ops c) p q = Ok (lo, hi) /\
                0 <= lo /\ lo <= lb keys q /\ lb keys q <= hi /\ hi <= zlen keys /\ (In q keys -> lb keys q < hi)
}.

Theorem idx_ops_contract_on c : idx_ok c -> float_ok_valid c -> build_ok c -> idx_contract_on c.
Proof.
  intros Hc Hf Hbo. constructor.
  - intros keys Hne Hs Hk Hg. destruct (Hbo keys (good_data_ok c keys Hne Hs Hk Hg) (proj2 (goodb_spec c keys Hg))) as (ix & Hb & _).
    exists ix. exact Hb.
  - intros keys p q Hb Hne Hs Hg Hq. cbn [pg_build idx_ops] in Hb.
    destruct (goodb_spec c keys Hg) as [Hkt Hn].
    pose proof (data_ok_of_build c keys p Hne (ssortedb_sorted keys Hs) Hkt ltac:(lia) Hb) as Hd.
    destruct (Hbo keys Hd Hn) as (ix & Hb' & Hs32). rewrite Hb in Hb'. injection Hb' as <-.
    exact (idx_search_window c keys p q Hc Hf Hd Hb Hs32 Hq).
Qed.

Lemma idx_ops_build_nil c : pg_build (idx_ops c) [] = Ok (pg_empty (idx_ops c)).
Proof. reflexivity. Qed.

(* (2) the guarded index: idx_ops on good lists; on the others an index that remembers only the
   number of keys (marked by ix_n = -1) and answers with the whole array *)
Definition fallback (keys : list Z) : index := mkIndex (-1) 0 [] keys.
Definition gops (c : cfg) : pgmops index :=
  mkOps index
    (fun keys => if goodb c keys then build c keys else Ok (fallback keys))
    (mkIndex 0 0 [] [])
    (fun ix k => if ix_n ix =? -1 then Ok (0, zlen (ix_offsets ix)) else pg_search (idx_ops c) ix k).

Lemma gops_build_nil c : pg_build (gops c) [] = Ok (pg_empty (gops c)).
Proof. reflexivity. Qed.

Lemma gops_empty c : pg_empty (gops c) = pg_empty (idx_ops c).
Proof. reflexivity. Qed.

Definition real (p : index) : Prop := ix_n p <> -1.

Lemma gops_search_real c p q : real p -> pg_search (gops c) p q = pg_search (idx_ops c) p q.
Proof. unfold real. intros H. cbn [pg_search gops]. replace (ix_n p =? -1) with false by lia. reflexivity. Qed.

Lemma gops_build_good c keys : goodb c keys = true -> pg_build (gops c) keys = pg_build (idx_ops c) keys.
Proof. intros H. cbn [pg_build gops idx_ops]. rewrite H. reflexivity. Qed.

Lemma build_real c keys p : build c keys = Ok p -> real p.
Proof. intros H. unfold real. rewrite (build_ix_n c keys p H). pose proof (zlen_ge0 keys). lia. Qed.

Theorem gops_contract c : idx_ok c -> float_ok_valid c -> build_ok c -> pgm_contract (gops c) (sentinel c).
Proof.
  intros Hc Hf Hbo. destruct (idx_ops_contract_on c Hc Hf Hbo) as [Hb Hs]. constructor.
  - intros keys Hne Hss Hk. cbn [pg_build gops]. destruct (goodb c keys) eqn:Hg.
    + exact (Hb keys Hne Hss Hk Hg).
    + eexists. reflexivity.
  - intros keys p q Hbd Hne Hss Hq. cbn [pg_build gops] in Hbd. destruct (goodb c keys) eqn:Hg.
    + rewrite (gops_search_real c p q (build_real c keys p Hbd)).
      exact (Hs keys p q Hbd Hne Hss Hg Hq).
    + injection Hbd as <-. exists 0, (zlen keys). cbn. split; [reflexivity|].
      pose proof (lb_nonneg keys q). pose proof (lb_le_len keys q).
      repeat split; try lia. apply lb_lt_len_In.
Qed.

(* (3) transfer between the two instances *)
Lemma set_nth_In {A} (l : list A) : forall n a, (n < length l)%nat -> In a (set_nth l n a).
Proof.
  induction l as [|x t IH]; intros n a Hn; [cbn in Hn; lia|].
  destruct n; cbn [set_nth]; [left; reflexivity|]. right. apply IH. cbn [length] in Hn. lia.
Qed.

Lemma set_level_In {P} (d d' : @dyn P) i l : set_level d i l = Ok d' -> In l (d_levels d').
Proof.
  unfold set_level. destruct ((i - d_min_level d <? 0) || (i - d_min_level d >=? zlen (d_levels d))) eqn:E; [discriminate|].
  intros H. injection H as <-. cbn [d_levels]. apply set_nth_In. unfold zlen in E. lia.
Qed.

Lemma set_pgm_levels {P} (d d' : @dyn P) i p : set_pgm d i p = Ok d' -> d_levels d' = d_levels d.
Proof.
  unfold set_pgm. destruct ((i - d_min_index_level d <? 0) || (i - d_min_index_level d >=? zlen (d_pgms d))); [discriminate|].
  intros H. injection H as <-. reflexivity.
Qed.

(* every level of the state is a list of keys of type K with at most 2^30 elements *)
Definition level_good (c : cfg) (d : @dyn index) : Prop :=
  Forall (fun l => goodb c (map it_key l) = true) (d_levels d).

Section Transfer.
  Variable c : cfg.

  Lemma pairwise_merge_transfer d it target ip d' :
    pairwise_merge (idx_ops c) d it target ip = Ok d' -> level_good c d' ->
    pairwise_merge (gops c) d it target ip = Ok d'.
  Proof.
    unfold pairwise_merge. intros H Hg.
    destruct (level d (d_min_level d)) as [buf|e]; cbn [bind] in *; [|exact H].
    destruct (level d target) as [lt|e]; cbn [bind] in *; [|exact H].
    change (merge_levels (gops c)) with (merge_levels (idx_ops c)).
    destruct (merge_levels (idx_ops c) d _ _) as [[d1 out]|e]; cbn [bind] in *; [|exact H].
    destruct (set_level d1 (d_min_level d) []) as [d2|e]; cbn [bind] in *; [|exact H].
    destruct (set_level d2 target out) as [d3|e] eqn:E3; cbn [bind] in *; [|exact H].
    destruct (has_pgm d target); [|exact H].
    cbn [pg_build idx_ops gops] in *.
    destruct (build c (map it_key out)) as [p|e]; cbn [bind] in *; [|discriminate H].
    assert (Hgo : goodb c (map it_key out) = true).
    { unfold level_good in Hg. rewrite Forall_forall in Hg. apply Hg.
      rewrite (set_pgm_levels _ _ _ _ H). exact (set_level_In _ _ _ _ E3). }
    rewrite Hgo. destruct (build c (map it_key out)); exact H.
  Qed.
End Transfer.

Lemma insert_transfer c d it d' :
  insert (idx_ops c) d it = Ok d' -> level_good c d' -> insert (gops c) d it = Ok d'.
Proof.
  unfold insert. intros H Hg.
  destruct (level d (d_min_level d)) as [buf|e]; cbn [bind] in *; [|exact H].
  destruct (lower_bound_bl buf 0 (zlen buf) (it_key it)) as [ip|e]; cbn [bind] in *; [|exact H].
  destruct (if ip <? zlen buf then _ else _) as [hit|e]; cbn [bind] in *; [|exact H].
  destruct hit; [exact H|].
  destruct (zlen buf <? d_buffer_max d); [exact H|].
  destruct (find_target d 300 (d_min_level d + 1) (d_buffer_max d + 1)) as [[i s]|e]; cbn [bind] in *; [|exact H].
  change (pg_empty (gops c)) with (pg_empty (idx_ops c)).
  apply pairwise_merge_transfer; assumption.
Qed.

Lemma insert_or_assign_transfer c d k v d' :
  insert_or_assign (idx_ops c) d k v = Ok d' -> level_good c d' -> insert_or_assign (gops c) d k v = Ok d'.
Proof.
  unfold insert_or_assign. destruct (match d_tomb d with Some t => v =? t | None => false end); [discriminate|].
  apply insert_transfer.
Qed.

Lemma erase_transfer c d k d' :
  erase (idx_ops c) d k = Ok d' -> level_good c d' -> erase (gops c) d k = Ok d'.
Proof. unfold erase. apply insert_transfer. Qed.

Lemma dyn_bulk_transfer c tomb kmax pairs base bl il d' :
  dyn_bulk (idx_ops c) tomb kmax pairs base bl il = Ok d' -> level_good c d' ->
  dyn_bulk (gops c) tomb kmax pairs base bl il = Ok d'.
Proof.
  unfold dyn_bulk. intros H Hg.
  destruct (dyn_ctor tomb kmax base bl il) as [d0|e]; cbn [bind] in *; [|exact H].
  destruct pairs as [|[k0 v0] tl]; [exact H|].
  destruct (dedup_sorted k0 tl) as [rest|e]; cbn [bind] in *; [|exact H].
  destruct (check_values tomb (mkItem k0 (Some v0) :: rest)); [exact H|].
  match type of H with context [set_level ?a ?b ?l] => destruct (set_level a b l) as [d2|e] eqn:E2 end;
    cbn [bind] in *; [|exact H].
  destruct (has_pgm d2 _); [|exact H].
  change (pg_empty (gops c)) with (pg_empty (idx_ops c)).
  cbn [pg_build idx_ops gops] in *.
  set (items := mkItem k0 (Some v0) :: rest) in *.
  destruct (build c (map it_key items)) as [p|e] eqn:Eb; cbn [bind] in *; [|discriminate H].
  assert (Hgo : goodb c (map it_key items) = true).
  { unfold level_good in Hg. rewrite Forall_forall in Hg. apply Hg.
    rewrite (set_pgm_levels _ _ _ _ H). cbn [d_levels]. exact (set_level_In _ _ _ _ E2). }
  rewrite Hgo. cbn [bind]. exact H.
Qed.

(* histories of the container over the concrete index: the guarded histories of DynCoreRefine.v
   (constructor arguments in range, keys below the reserved value, no wrap of used_levels) in which
   every level of every state built through the index is a list of keys of type K with fewer than
   2^32 elements (true of every state of DynamicPGMIndex<K,V>: the keys are values of K) *)
Inductive ihist (c : cfg) : @dyn index -> amap -> Prop :=
| ih_ctor : forall tomb base bl il d,
    ctor_ok base bl il -> dyn_ctor tomb (sentinel c) base bl il = Ok d -> ihist c d []
| ih_bulk : forall tomb pairs base bl il d,
    bulk_ok base bl il pairs -> Forall (fun p => fst p < sentinel c) pairs ->
    dyn_bulk (idx_ops c) tomb (sentinel c) pairs base bl il = Ok d -> level_good c d ->
    ihist c d (am_bulk pairs)
| ih_ins : forall d m k v d',
    ihist c d m -> size_ok d -> k < sentinel c -> insert_or_assign (idx_ops c) d k v = Ok d' -> level_good c d' ->
    ihist c d' (am_insert k v m)
| ih_del : forall d m k d',
    ihist c d m -> size_ok d -> k < sentinel c -> erase (idx_ops c) d k = Ok d' -> level_good c d' ->
    ihist c d' (am_erase k m).

Lemma ihist_ghist_g c d m : ihist c d m -> DynCoreRefine.ghist (gops c) (sentinel c) d m.
Proof.
  induction 1.
  - eapply gh_ctor; eassumption.
  - eapply gh_bulk; try eassumption. apply dyn_bulk_transfer; eassumption.
  - eapply gh_ins; try eassumption. apply insert_or_assign_transfer; eassumption.
  - eapply gh_del; try eassumption. apply erase_transfer; eassumption.
Qed.

(* the same states are histories over idx_ops in the sense of DynCoreRefine / DynSpec *)
Lemma ihist_ghist c d m : ihist c d m -> DynCoreRefine.ghist (idx_ops c) (sentinel c) d m.
Proof.
  induction 1.
  - eapply gh_ctor; eassumption.
  - eapply gh_bulk; eassumption.
  - eapply gh_ins; eassumption.
  - eapply gh_del; eassumption.
Qed.

Lemma nth_res_In {A} (l : list A) i a : nth_res l i = Ok a -> In a l.
Proof.
  unfold nth_res. destruct (i <? 0); [discriminate|].
  destruct (nth_error l (Z.to_nat i)) eqn:E; [|discriminate]. intros H. injection H as <-.
  eapply nth_error_In. exact E.
Qed.

Lemma In_nth_res {A} (l : list A) a : In a l -> exists i, 0 <= i < zlen l /\ nth_res l i = Ok a.
Proof.
  intros H. destruct (In_nth_error l a H) as [n Hn]. exists (Z.of_nat n).
  assert (n < length l)%nat by (apply nth_error_Some; congruence).
  split; [unfold zlen; lia|]. unfold nth_res. replace (Z.of_nat n <? 0) with false by lia.
  rewrite Nat2Z.id, Hn. reflexivity.
Qed.

Lemma nth_res_some {A} (l : list A) i : 0 <= i < zlen l -> exists a, nth_res l i = Ok a.
Proof.
  intros Hi. unfold nth_res. replace (i <? 0) with false by lia.
  destruct (nth_error l (Z.to_nat i)) eqn:E; [eexists; reflexivity|].
  apply nth_error_None in E. unfold zlen in Hi. lia.
Qed.

Lemma gops_Hempty c : forall p, pg_build (gops c) [] = Ok p -> p = pg_empty (gops c).
Proof. intros p H. cbn in H. injection H as <-. reflexivity. Qed.

Lemma ihist_level_good c d m : ihist c d m -> level_good c d.
Proof.
  destruct 1; try assumption.
  unfold dyn_ctor in H0.
  destruct ((base <? 2) && ((bl =? 0) || (il =? 0))); [discriminate|].
  destruct (base <? 2); [discriminate|].
  destruct (negb _); [discriminate|]. injection H0 as <-. unfold level_good. cbn [d_levels].
  apply Forall_forall. intros l Hl. apply repeat_spec in Hl. subst l. reflexivity.
Qed.

(* every index stored in a reached state is a real one (built by build, or the empty index) *)
Lemma ihist_real c d m : ihist c d m -> Forall real (d_pgms d).
Proof.
  intros H. pose proof (ihist_level_good c d m H) as Hg.
  pose proof (ghist_Inv (gops c) (sentinel c) (gops_Hempty c) d m (ihist_ghist_g c d m H)) as HI.
  pose proof (iv_wf _ _ _ HI) as Hwf. pose proof (iv_pgms _ _ _ HI) as Hpg.
  destruct (wf_levels_len _ _ Hwf) as [Hl1 Hl2]. destruct (wf_levels_order _ _ Hwf) as [Ho1 Ho2].
  pose proof (wf_lsm _ _ Hwf) as Hlsm.
  apply Forall_forall. intros p Hp. destruct (In_nth_res _ _ Hp) as (j & Hj & Ej).
  set (i := j + d_min_index_level d).
  assert (Epg : pgm d i = Ok p) by (unfold pgm, i; replace (j + d_min_index_level d - d_min_index_level d) with j by lia; exact Ej).
  destruct (nth_res_some (d_levels d) (i - d_min_level d) ltac:(unfold i; lia)) as (l & El).
  change (level d i = Ok l) in El.
  destruct l as [|e l'].
  - rewrite (lp_reset _ _ Hlsm i [] p El eq_refl Epg). unfold real. cbn. lia.
  - destruct (lp_indexed _ _ Hlsm i (e :: l') ltac:(unfold i; lia) El ltac:(discriminate)) as (p' & Ep' & Eb).
    rewrite Epg in Ep'. injection Ep' as <-.
    assert (Hgo : goodb c (keys_of (e :: l')) = true).
    { unfold level_good in Hg. rewrite Forall_forall in Hg. apply (Hg (e :: l')). exact (nth_res_In _ _ _ El). }
    cbn [pg_build gops] in Eb. rewrite Hgo in Eb. exact (build_real c _ p Eb).
Qed.

(* the queries of the two instances coincide on states holding only real indexes *)
Section QueryTransfer.
  Variables (c : cfg) (d : @dyn index).
  Hypothesis Hreal : Forall real (d_pgms d).

  Lemma level_window_eq i li key : level_window (gops c) d i li key = level_window (idx_ops c) d i li key.
  Proof.
    unfold level_window. destruct (has_pgm d i); [|reflexivity].
    destruct (pgm d i) as [p|e] eqn:Ep; cbn [bind]; [|reflexivity].
    rewrite gops_search_real; [reflexivity|].
    rewrite Forall_forall in Hreal. apply Hreal. exact (nth_res_In _ _ _ Ep).
  Qed.

  Lemma find_levels_eq key : forall is_, find_levels (gops c) d is_ key = find_levels (idx_ops c) d is_ key.
  Proof.
    induction is_ as [|i rest IH]; [reflexivity|]. cbn [find_levels].
    destruct (level d i) as [li|e]; cbn [bind]; [|reflexivity].
    rewrite level_window_eq, IH. reflexivity.
  Qed.

  Lemma lower_bound_levels_eq key : forall is_ lb_ del,
    lower_bound_levels (gops c) d is_ key lb_ del = lower_bound_levels (idx_ops c) d is_ key lb_ del.
  Proof.
    induction is_ as [|i rest IH]; intros lb_ del; [reflexivity|]. cbn [lower_bound_levels].
    destruct (level d i) as [li|e]; cbn [bind]; [|reflexivity].
    rewrite level_window_eq, IH. destruct (zlen li =? 0); [reflexivity|].
    destruct (level_window (idx_ops c) d i li key) as [w|e]; cbn [bind]; [|reflexivity].
    destruct (lower_bound_bl li (fst w) (snd w) key) as [it|e]; cbn [bind]; [|reflexivity].
    destruct (lb_scan _ _ _ _ _ _) as [[[del1 cand] exact]|e]; cbn [bind]; [|reflexivity].
    destruct cand as [[j e]|]; [destruct exact; [reflexivity|]|]; apply IH.
  Qed.

  Lemma range_levels_eq lo hi : forall is_ tmp,
    range_levels (gops c) d is_ lo hi tmp = range_levels (idx_ops c) d is_ lo hi tmp.
  Proof.
    induction is_ as [|i rest IH]; intros tmp; [reflexivity|]. cbn [range_levels].
    destruct (level d i) as [li|e]; cbn [bind]; [|reflexivity].
    rewrite !level_window_eq, IH. destruct (zlen li =? 0); [reflexivity|].
    destruct (level_window (idx_ops c) d i li lo) as [wl|e]; cbn [bind]; [|reflexivity].
    destruct (level_window (idx_ops c) d i li hi) as [wh|e]; cbn [bind]; [|reflexivity].
    destruct (lower_bound_bl li (fst wl) (snd wl) lo) as [it|e]; cbn [bind]; [|reflexivity].
    cbn zeta. rewrite !IH. reflexivity.
  Qed.

  Lemma lazy_levels_eq key : forall is_, lazy_levels (gops c) d is_ key = lazy_levels (idx_ops c) d is_ key.
  Proof.
    induction is_ as [|i rest IH]; [reflexivity|]. cbn [lazy_levels].
    destruct (level d i) as [li|e]; cbn [bind]; [|reflexivity].
    rewrite level_window_eq, IH. reflexivity.
  Qed.
End QueryTransfer.

Section QueryTransfer2.
  Variables (c : cfg) (d : @dyn index).
  Hypothesis Hreal : Forall real (d_pgms d).

  Lemma dfind_eq q : dfind (gops c) d q = dfind (idx_ops c) d q.
  Proof. unfold dfind. apply find_levels_eq. exact Hreal. Qed.
  Lemma count_eq q : count (gops c) d q = count (idx_ops c) d q.
  Proof. unfold count. rewrite dfind_eq. reflexivity. Qed.
  Lemma lower_bound_eq q : lower_bound (gops c) d q = lower_bound (idx_ops c) d q.
  Proof. unfold lower_bound. apply lower_bound_levels_eq. exact Hreal. Qed.
  Lemma range_eq lo hi : range (gops c) d lo hi = range (idx_ops c) d lo hi.
  Proof. unfold range. rewrite (range_levels_eq c d Hreal). reflexivity. Qed.
  Lemma lazy_initialize_eq it : lazy_initialize (gops c) d it = lazy_initialize (idx_ops c) d it.
  Proof.
    unfold lazy_initialize. destruct (i_init it); [reflexivity|]. destruct (i_cur it) as [cu|]; [|reflexivity].
    destruct (cur_item d cu) as [e|er]; cbn [bind]; [|reflexivity].
    rewrite (lazy_levels_eq c d Hreal). reflexivity.
  Qed.
  Lemma iter_next_eq it : iter_next (gops c) d it = iter_next (idx_ops c) d it.
  Proof. unfold iter_next. rewrite lazy_initialize_eq. reflexivity. Qed.
  Lemma iterate_eq : forall fuel it, iterate (gops c) fuel d it = iterate (idx_ops c) fuel d it.
  Proof.
    induction fuel as [|f IH]; intros it; [reflexivity|]. cbn [iterate].
    destruct (i_cur it) as [cu|]; [|reflexivity].
    destruct (cur_item d cu) as [e|er]; cbn [bind]; [|reflexivity].
    rewrite iter_next_eq. destruct (iter_next (idx_ops c) d it) as [it1|er]; cbn [bind]; [|reflexivity].
    rewrite IH. reflexivity.
  Qed.
  Lemma to_list_from_eq it : to_list_from (gops c) d it = to_list_from (idx_ops c) d it.
  Proof. unfold to_list_from. apply iterate_eq. Qed.
  Lemma dyn_begin_eq k : dyn_begin (gops c) d k = dyn_begin (idx_ops c) d k.
  Proof. unfold dyn_begin. rewrite lower_bound_eq. reflexivity. Qed.
  Lemma dyn_size_eq k : dyn_size (gops c) d k = dyn_size (idx_ops c) d k.
  Proof.
    unfold dyn_size. rewrite dyn_begin_eq. destruct (dyn_begin (idx_ops c) d k); cbn [bind]; [|reflexivity].
    rewrite to_list_from_eq. reflexivity.
  Qed.
  Lemma dyn_empty_eq k : dyn_empty (gops c) d k = dyn_empty (idx_ops c) d k.
  Proof. unfold dyn_empty. rewrite dyn_begin_eq. reflexivity. Qed.
End QueryTransfer2.

(* ---------------- the theorems of DynCore.v / DynIter.v for ops := idx_ops c ---------------- *)

(* C15 needs no contract at all: it holds for every guarded history over idx_ops *)
Theorem C15_hist_idx c d m : DynCoreRefine.ghist (idx_ops c) (sentinel c) d m ->
  wf_state (idx_ops c) d /\ lsm_props (idx_ops c) d.
Proof. exact (C15_hist (idx_ops c) (sentinel c) (idx_ops_build_nil c) d m). Qed.

Section DynIdx.
  Variable c : cfg.
  Hypothesis Hc : idx_ok c.
  Hypothesis Hf : float_ok_valid c.
  Hypothesis Hsm : cfg_small c.
  Variables (d : @dyn index) (m : amap).
  Hypothesis Hh : ihist c d m.
  Hypothesis Hsz : DynCoreQuery.sizes_ok d.

  Let Hcon := gops_contract c Hc Hf (build_ok_holds c Hc Hsm).
  Let Hg := ihist_ghist_g c d m Hh.
  Let Hr := ihist_real c d m Hh.

  Theorem C15_ihist : wf_state (idx_ops c) d /\ lsm_props (idx_ops c) d.
  Proof. exact (C15_hist_idx c d m (ihist_ghist c d m Hh)). Qed.

  Theorem C05_find_idx q : q < sentinel c ->
    exists r, dfind (idx_ops c) d q = Ok r /\ obs r = option_map (fun v => (q, v)) (am_find q m).
  Proof. intros Hq. rewrite <- (dfind_eq c d Hr). exact (C05_find (gops c) (sentinel c) Hcon (gops_build_nil c) d m q Hg Hsz Hq). Qed.

  Theorem C05_count_idx q : q < sentinel c ->
    count (idx_ops c) d q = Ok (match am_find q m with Some _ => 1 | None => 0 end).
  Proof. intros Hq. rewrite <- (count_eq c d Hr). exact (C05_count (gops c) (sentinel c) Hcon (gops_build_nil c) d m q Hg Hsz Hq). Qed.

  Theorem C05_lower_bound_idx q : q < sentinel c ->
    exists r, lower_bound (idx_ops c) d q = Ok r /\ obs r = am_lower_bound q m.
  Proof. intros Hq. rewrite <- (lower_bound_eq c d Hr). exact (C05_lower_bound (gops c) (sentinel c) Hcon (gops_build_nil c) d m q Hg Hsz Hq). Qed.

  Theorem C06_range_idx lo hi : lo <= hi -> hi < sentinel c -> range (idx_ops c) d lo hi = Ok (am_range lo hi m).
  Proof. intros H1 H2. rewrite <- (range_eq c d Hr). exact (C06_range (gops c) (sentinel c) Hcon (gops_build_nil c) d m lo hi Hg Hsz H1 H2). Qed.

  Theorem C06_iter_idx q : q < sentinel c ->
    exists r, lower_bound (idx_ops c) d q = Ok r /\ to_list_from (idx_ops c) d (iter_of r) = Ok (am_from q m).
  Proof.
    intros Hq. rewrite <- (lower_bound_eq c d Hr).
    destruct (C06_iter (gops c) (sentinel c) Hcon (gops_build_nil c) d m q Hg Hsz Hq) as (r & E1 & E2).
    exists r. split; [exact E1|]. rewrite <- (to_list_from_eq c d Hr). exact E2.
  Qed.

  Theorem C06_size_idx kmin_ : kmin_ < sentinel c -> Forall (fun p => kmin_ <= fst p) m ->
    dyn_size (idx_ops c) d kmin_ = Ok (zlen m).
  Proof. intros H1 H2. rewrite <- (dyn_size_eq c d Hr). exact (C06_size (gops c) (sentinel c) Hcon (gops_build_nil c) d m kmin_ Hg Hsz H1 H2). Qed.

  Theorem C06_empty_idx kmin_ : kmin_ < sentinel c -> Forall (fun p => kmin_ <= fst p) m ->
    dyn_empty (idx_ops c) d kmin_ = Ok (match m with [] => true | _ => false end).
  Proof. intros H1 H2. rewrite <- (dyn_empty_eq c d Hr). exact (C06_empty (gops c) (sentinel c) Hcon (gops_build_nil c) d m kmin_ Hg Hsz H1 H2). Qed.
End DynIdx.

Print Assumptions idx_ops_contract_on.
Print Assumptions gops_contract.
Print Assumptions C15_hist_idx.
Print Assumptions C05_find_idx.
Print Assumptions C05_lower_bound_idx.
Print Assumptions C06_iter_idx.
Print Assumptions C06_range_idx.

(* ------------------------------------------------------------------------------------------------
   NOT PROVED / residual hypotheses (nothing is weakened silently):
   - `pgm_contract (idx_ops c) (sentinel c)` itself is not provable: pc_build / pc_search quantify over
     every list of integers below kmax (negative keys for an unsigned K, 2^32 or more keys), on which
     the index model wraps.  It is replaced by idx_contract_on (restricted to goodb lists), by the full
     contract of the guarded instance gops, and by the transfer lemmas (ihist_ghist_g, *_eq).
   - build_ok c (totality of build + fewer than 2^32 segments in total) is proved in ComposeBuild.v
     for at most 2^30 keys and c_par <= 20, c_eps, c_epsrec <= 2^31 (cfg_small); hence the 2^30 in goodb.
   - level_good c d' is a premise of every update step of ihist; ComposeDynGood.v derives it from the
     typing of the inserted keys (in_ktype) and the capacity bound cap30 (thist_ihist).
   ------------------------------------------------------------------------------------------------ *)

(* DynCoreRefine.v — the DynamicPGMIndex model refines the ordered map of DynSpec (C05). *)
From Coq Require Import ZArith List Bool Lia ZifyBool.
Require Import Base GenLeaf DynModel DynSpec DynCoreLemmas DynCoreInv.
Local Open Scope Z_scope.

Ltac csplit := repeat match goal with |- _ /\ _ => refine (conj _ _) end.

(* ---------- pure list facts ---------- *)
Lemma lvl_skipn : forall m L p, lvl (skipn m L) p = lvl L (m + p).
Proof.
  unfold lvl. induction m as [|m IH]; intros L p; [reflexivity|].
  destruct L as [|l L]; cbn [skipn plus nth].
  - destruct p; reflexivity.
  - apply IH.
Qed.

Lemma lvl_app_repeat : forall t (X : list (list item)) p,
  lvl (repeat [] t ++ X) p = if Nat.ltb p t then [] else lvl X (p - t).
Proof.
  intros t X p. unfold lvl. destruct (Nat.ltb p t) eqn:E.
  - apply Nat.ltb_lt in E. rewrite app_nth1 by (rewrite repeat_length; auto).
    destruct (nth_in_or_default p (repeat (@nil item) t) []) as [H|H]; auto.
    apply repeat_spec in H. auto.
  - apply Nat.ltb_ge in E. rewrite app_nth2 by (rewrite repeat_length; auto).
    rewrite repeat_length. reflexivity.
Qed.

Lemma look_repeat_app : forall t X k, look_levels (repeat [] t ++ X) k = look_levels X k.
Proof.
  intros t X k. rewrite look_app. rewrite look_all_empty; auto.
  apply Forall_forall. intros l H. apply repeat_spec in H. auto.
Qed.

Lemma look_cons_nil : forall X k, look_levels ([] :: X) k = look_levels X k.
Proof. reflexivity. Qed.

Lemma look_snoc_nil : forall X k, look_levels (X ++ [[]]) k = look_levels X k.
Proof. intros X k. rewrite look_app. destruct (look_levels X k); auto. Qed.

Lemma lookup_val_insert : forall buf n x k tl, level_lookup buf (it_key x) = None ->
  abs_levels (insert_at buf n x :: tl) k = if k =? it_key x then it_val x else abs_levels (buf :: tl) k.
Proof.
  intros buf n x k tl Hn. cbn [abs_levels]. rewrite insert_at_lookup by auto.
  destruct (k =? it_key x); auto.
Qed.

Section RefSec.
Context {P : Type} (ops : pgmops P) (kmax : Z).
Notation dynP := (@dyn P).
Notation Inv := (Inv ops kmax).

Lemma lvl_level : forall (d : dynP) p,
  lvl (d_levels d) p = match level d (d_min_level d + Z.of_nat p) with Ok l => l | Err _ => [] end.
Proof.
  intros d p. rewrite nth_res_lvl. unfold level.
  replace (d_min_level d + Z.of_nat p - d_min_level d) with (Z.of_nat p) by lia. reflexivity.
Qed.

Lemma abs_look : forall (d : dynP) k, abs d k = val_of (look_levels (d_levels d) k).
Proof. intros d k. unfold abs. apply abs_levels_look. Qed.

Lemma levels_head : forall (d : dynP) buf, level d (d_min_level d) = Ok buf ->
  exists tl, d_levels d = buf :: tl.
Proof.
  intros d buf H. apply level_nth_error in H. destruct H as [_ H].
  replace (d_min_level d - d_min_level d) with 0 in H by lia. cbn in H.
  destruct (d_levels d) as [|b tl]; [discriminate|]. inversion H; subst. eauto.
Qed.

Lemma set_buffer_levels : forall (d d' : dynP) buf buf', level d (d_min_level d) = Ok buf ->
  set_level d (d_min_level d) buf' = Ok d' ->
  exists tl, d_levels d = buf :: tl /\ d_levels d' = buf' :: tl.
Proof.
  intros d d' buf buf' Hb Hs. destruct (levels_head d buf Hb) as [tl Htl]. exists tl. split; auto.
  apply set_level_spec in Hs. destruct Hs as [_ [_ [_ [_ [_ [HL _]]]]]].
  rewrite HL, Htl. replace (d_min_level d - d_min_level d) with 0 by lia. reflexivity.
Qed.

(* levels at or above used_levels hold nothing *)
Lemma look_unused : forall (d : dynP) k, Inv d ->
  look_levels (skipn (Z.to_nat (d_used d - d_min_level d)) (d_levels d)) k = None.
Proof.
  intros d k HI. apply look_nil_ext. intros p. rewrite lvl_skipn, lvl_level.
  pose proof (wf_levels_len ops d (iv_wf _ _ d HI)) as [H1 _].
  destruct (level d _) as [l|] eqn:El; [|reflexivity].
  assert (l = []). { eapply lp_unused; [apply HI| |eauto]. lia. }
  subst. reflexivity.
Qed.

Lemma pairwise_merge_levels : forall (g : dynP) x t d' ip,
  0 <= d_min_level g < t -> t <= 255 ->
  pairwise_merge ops g x t ip = Ok d' ->
  exists buf lt out,
    level g (d_min_level g) = Ok buf /\ level g t = Ok lt /\
    out = mrun (d_used g) (d_min_level g + 1) (insert_at buf (Z.to_nat ip) x)
               (levels_from g (d_min_level g + 1) (merge_n g t lt)) /\
    length (levels_from g (d_min_level g + 1) (merge_n g t lt)) = merge_n g t lt /\
    forall k, look_levels (d_levels d') k =
              look_levels (out :: skipn (S (Z.to_nat (t - d_min_level g))) (d_levels g)) k.
Proof.
  intros g x t d' ip Ht Ht2 H. apply pairwise_merge_spec in H; auto.
  destruct H as [buf [lt [out [Hb [Hlt H]]]]]. cbv zeta in H.
  destruct H as [Hout [Hlen [Hc [Hu [Hz [Hzp [Hlv _]]]]]]].
  exists buf, lt, out. csplit; auto. intros k.
  set (tp := Z.to_nat (t - d_min_level g)).
  rewrite <- (look_repeat_app tp (out :: _)). apply look_ext. intros p. f_equal.
  rewrite lvl_app_repeat, lvl_level.
  destruct Hc as [_ [Hml _]]. rewrite Hml, Hlv.
  assert (Hn : (merge_n g t lt <= tp /\ tp - 1 <= merge_n g t lt)%nat).
  { unfold merge_n, tp. destruct (zlen lt =? 0); lia. }
  destruct (Nat.ltb p tp) eqn:Ep.
  - apply Nat.ltb_lt in Ep.
    destruct (d_min_level g + Z.of_nat p =? t) eqn:E1; [lia|].
    assert (E2 : (d_min_level g + Z.of_nat p =? d_min_level g) || cleared g (merge_n g t lt) (d_min_level g + Z.of_nat p) = true).
    { unfold cleared. lia. }
    rewrite E2. reflexivity.
  - apply Nat.ltb_ge in Ep. destruct (d_min_level g + Z.of_nat p =? t) eqn:E1.
    + replace (p - tp)%nat with 0%nat by lia. reflexivity.
    + assert (E2 : (d_min_level g + Z.of_nat p =? d_min_level g) || cleared g (merge_n g t lt) (d_min_level g + Z.of_nat p) = false).
      { unfold cleared. lia. }
      rewrite E2. replace (p - tp)%nat with (S (p - tp - 1)) by lia.
      unfold lvl at 1. cbn [nth]. fold (lvl (skipn (S tp) (d_levels g)) (p - tp - 1)).
      rewrite lvl_skipn, lvl_level. replace (S tp + (p - tp - 1))%nat with p by lia. reflexivity.
Qed.

Lemma pairwise_merge_abs : forall (g : dynP) x t d' buf,
  Inv g -> d_min_level g < t < d_used g ->
  level g (d_min_level g) = Ok buf -> level_lookup buf (it_key x) = None ->
  pairwise_merge ops g x t (lbk buf (it_key x)) = Ok d' ->
  forall k, abs d' k = if k =? it_key x then it_val x else abs g k.
Proof.
  intros g x t d' buf HI Ht Hb Hn H k.
  pose proof (wf_levels_order ops g (iv_wf _ _ g HI)) as [H0 _].
  pose proof (wf_levels_len ops g (iv_wf _ _ g HI)) as [Hl1 Hl2].
  pose proof (iv_used _ _ g HI) as Hu.
  apply pairwise_merge_levels in H; try lia.
  destruct H as [buf' [lt [out [Hb' [Hlt [Hout [Hlen Hlook]]]]]]].
  rewrite Hb in Hb'. inversion Hb'; subst buf'; clear Hb'.
  set (n := merge_n g t lt) in *. set (tp := Z.to_nat (t - d_min_level g)) in *.
  set (L := d_levels g) in *.
  destruct (levels_head g buf Hb) as [tl Htl]. fold L in Htl.
  assert (Hn12 : (n = tp /\ lt <> []) \/ (S n = tp /\ lt = [])).
  { unfold n, tp, merge_n. destruct (zlen lt =? 0) eqn:E.
    - right. split; [lia|]. destruct lt; auto. cbn in E. lia.
    - left. split; [lia|]. intros ->. cbn in E. lia. }
  assert (Hls : levels_from g (d_min_level g + 1) n = firstn n tl).
  { unfold levels_from. fold L. rewrite Htl.
    replace (Z.to_nat (d_min_level g + 1 - d_min_level g)) with 1%nat by lia. reflexivity. }
  assert (Hsrt : Forall isrt (levels_from g (d_min_level g + 1) n)).
  { apply Forall_forall. intros l Hin. apply levels_from_in in Hin; try lia.
    - destruct Hin as [j [_ Hj]]. eapply Inv_sorted; eauto.
    - apply level_nth_error in Hlt. unfold n, merge_n. destruct (zlen lt =? 0); lia. }
  assert (Htmp : isrt (insert_at buf (Z.to_nat (lbk buf (it_key x))) x)).
  { apply insert_at_sorted; auto. eapply Inv_sorted; eauto. }
  rewrite !abs_look, Hlook. rewrite <- !abs_levels_look.
  (* bring the tail into the shape  skipn n tl *)
  assert (Htail : abs_levels (out :: skipn (S tp) L) k = abs_levels (out :: skipn n tl) k).
  { destruct Hn12 as [[E _]|[E Hnil]].
    - rewrite Htl, E. reflexivity.
    - apply level_nth_error in Hlt. destruct Hlt as [_ Hlt]. fold tp in Hlt. fold L in Hlt.
      rewrite Htl in Hlt. rewrite <- E in Hlt. cbn [nth_error] in Hlt.
      rewrite (skipn_nth_error _ _ _ _ Hlt). rewrite Htl, <- E. cbn [skipn].
      subst lt. cbn [abs_levels]. destruct (level_lookup out k); reflexivity. }
  rewrite Htail, Hout, Hls.
  rewrite mrun_abs; auto.
  - rewrite firstn_skipn. unfold abs. fold L. rewrite Htl. apply lookup_val_insert; auto.
  - rewrite <- Hls; auto.
  - rewrite <- Hls. unfold zlen. rewrite Hlen. destruct Hn12 as [[E _]|[E _]]; lia.
  - rewrite <- Hls. unfold zlen. rewrite Hlen. intros E q.
    assert (En : n = tp) by (destruct Hn12 as [[E' _]|[E' _]]; lia).
    pose proof (look_unused g q HI) as Hun. fold L in Hun. rewrite Htl in Hun.
    replace (Z.to_nat (d_used g - d_min_level g)) with (S n) in Hun by lia. exact Hun.
Qed.

Hypothesis Hempty : forall p, pg_build ops [] = Ok p -> p = pg_empty ops.

Theorem insert_abs : forall d x d', Inv d -> size_ok d -> insert ops d x = Ok d' ->
  forall k, abs d' k = if k =? it_key x then it_val x else abs d k.
Proof.
  intros d x d' HI Hsz H k. apply (insert_cases ops kmax) in H; auto.
  destruct H as [buf e Hb Hn He Hset | buf d1 Hb Hn Hz Hset -> | buf i sr Hb Hn Hfull Hf Hpm].
  - destruct (set_buffer_levels d d' buf _ Hb Hset) as [tl [H1 H2]].
    unfold abs. rewrite H1, H2. cbn [abs_levels].
    rewrite (set_nth_lookup buf _ x e k); auto; [|eapply Inv_sorted; eauto].
    destruct (k =? it_key x); auto.
  - destruct (set_buffer_levels d d1 buf _ Hb Hset) as [tl [H1 H2]].
    unfold abs, set_used. cbn [d_levels]. rewrite H1, H2. apply lookup_val_insert; auto.
  - destruct (merge_case_facts ops kmax d buf i sr HI Hb Hfull Hf) as [Hmu [Hi _]].
    destruct (Z_lt_dec i (d_used d)) as [Hlt|Hge].
    + assert (Eg : grow ops d i = d). { unfold grow. destruct (i =? d_used d) eqn:E; [lia|auto]. }
      rewrite Eg in Hpm. eapply pairwise_merge_abs; eauto. lia.
    + assert (i = d_used d) by lia. subst i.
      pose proof (Inv_grow ops kmax d HI Hsz) as HG.
      pose proof (wf_levels_order ops d (iv_wf _ _ d HI)) as [H0 _].
      destruct (grow_spec ops d Hsz ltac:(lia)) as [Hc [Hu' [HL [Hlv _]]]].
      set (g := grow ops d (d_used d)) in *. clearbody g.
      destruct Hc as [_ [Hc2 _]].
      assert (Hgb : level g (d_min_level g) = Ok buf).
      { rewrite Hc2, Hlv. apply level_nth_error in Hb as Hb'.
        destruct (d_min_level d - d_min_level d =? zlen (d_levels d)) eqn:E; [lia|auto]. }
      rewrite (pairwise_merge_abs g x (d_used d) d' buf HG ltac:(lia) Hgb Hn Hpm k).
      destruct (k =? it_key x); auto. rewrite !abs_look, HL, look_snoc_nil. reflexivity.
Qed.

Theorem insert_refines : forall d k v d', Inv d -> size_ok d ->
  insert_or_assign ops d k v = Ok d' ->
  forall q, abs d' q = if q =? k then Some v else abs d q.
Proof.
  intros d k v d' HI Hsz H q. unfold insert_or_assign in H.
  destruct (match d_tomb d with Some t => v =? t | None => false end); [discriminate|].
  apply (insert_abs d _ d' HI Hsz H q).
Qed.

Theorem erase_refines : forall d k d', Inv d -> size_ok d ->
  erase ops d k = Ok d' ->
  forall q, abs d' q = if q =? k then None else abs d q.
Proof. intros d k d' HI Hsz H q. apply (insert_abs d _ d' HI Hsz H q). Qed.

Theorem bulk_refines : forall tomb pairs base bl il d,
  dyn_bulk ops tomb kmax pairs base bl il = Ok d -> represents d (am_bulk pairs).
Proof.
  intros tomb pairs base bl il d H q. apply dyn_bulk_cases in H. destruct H as [_ H].
  destruct H as [Hnil Hd | k0 v0 tl rest d2 Hp Hdd used items Hset Hfin].
  - subst. rewrite abs_look. unfold set_used, bulk_d1. cbn [d_levels].
    rewrite look_all_empty; [reflexivity|].
    apply Forall_forall. intros l Hl. apply repeat_spec in Hl. auto.
  - assert (Hd : d_levels d = d_levels d2).
    { destruct (has_pgm d2 (used - 1)).
      - destruct Hfin as [p [_ Hsp]]. apply set_pgm_spec in Hsp.
        destruct Hsp as [_ [_ [HL _]]]. rewrite HL. reflexivity.
      - subst; auto. }
    apply set_level_spec in Hset. destruct Hset as [_ [_ [_ [_ [Hr [HL _]]]]]].
    rewrite abs_look, Hd, HL. unfold bulk_d1 in *. cbn [d_levels d_min_level] in *.
    set (nl := Z.to_nat (wrapU 8 (Z.max (bulk_used base bl (zlen pairs)) 32) - dyn_min_level base bl + 1)) in *.
    unfold zlen in Hr. rewrite repeat_length in Hr.
    rewrite look_set_nth_repeat by lia.
    subst items pairs. rewrite am_find_bulk_cons, lookup_cons. cbn [it_key].
    pose proof (dedup_lookup _ _ _ Hdd q) as Hq.
    pose proof (dedup_sorted_spec _ _ _ Hdd) as [_ [_ [_ [_ Hall]]]].
    destruct (k0 =? q) eqn:E1, (q =? k0) eqn:E2; try lia; auto.
    rewrite Hq. destruct (q <=? k0) eqn:E3; auto.
    symmetry. apply am_find_bulk_none. eapply Forall_impl; [|exact Hall]. cbn; intros; lia.
Qed.

(* ---------- histories with their side conditions ----------
   [hist] of DynSpec does not expose the keys of the operations, so the guarded variant carries them:
   constructor arguments in range (ctor_ok / bulk_ok), every inserted / erased key below the reserved
   kmax, and no uint8_t wrap of used_levels (size_ok) before each update. *)
Inductive ghist : dynP -> amap -> Prop :=
| gh_ctor : forall tomb base bl il d,
    ctor_ok base bl il -> dyn_ctor tomb kmax base bl il = Ok d -> ghist d []
| gh_bulk : forall tomb pairs base bl il d,
    bulk_ok base bl il pairs -> Forall (fun p => fst p < kmax) pairs ->
    dyn_bulk ops tomb kmax pairs base bl il = Ok d -> ghist d (am_bulk pairs)
| gh_ins : forall d m k v d',
    ghist d m -> size_ok d -> k < kmax -> insert_or_assign ops d k v = Ok d' -> ghist d' (am_insert k v m)
| gh_del : forall d m k d',
    ghist d m -> size_ok d -> k < kmax -> erase ops d k = Ok d' -> ghist d' (am_erase k m).

Lemma ghist_hist : forall d m, ghist d m -> hist ops d m.
Proof.
  intros d m H. induction H.
  - eapply h_ctor; eauto.
  - eapply h_bulk; eauto.
  - eapply h_ins; eauto.
  - eapply h_del; eauto.
Qed.

Lemma insert_or_assign_Inv : forall d k v d', Inv d -> size_ok d -> k < kmax ->
  insert_or_assign ops d k v = Ok d' -> Inv d'.
Proof.
  intros d k v d' HI Hsz Hk H. unfold insert_or_assign in H.
  destruct (match d_tomb d with Some t => v =? t | None => false end); [discriminate|].
  eapply (insert_Inv ops kmax Hempty); eauto; cbn; auto.
Qed.

Theorem ghist_Inv : forall d m, ghist d m -> Inv d.
Proof.
  intros d m H. induction H.
  - eapply ctor_Inv; eauto.
  - eapply bulk_Inv; eauto.
  - eapply insert_or_assign_Inv; eauto.
  - unfold erase in *. eapply (insert_Inv ops kmax Hempty); eauto; cbn; auto.
Qed.

Theorem ghist_represents : forall d m, ghist d m -> represents d m /\ amsrt m.
Proof.
  intros d m H. induction H.
  - split; [|cbn; auto]. intros q. apply dyn_ctor_eq in H0. destruct H0 as [_ H0]. cbv zeta in H0. subst d.
    rewrite abs_look. cbn [d_levels]. rewrite look_all_empty; [reflexivity|].
    apply Forall_forall. intros l Hl. apply repeat_spec in Hl. auto.
  - split; [eapply bulk_refines; eauto|apply am_bulk_sorted].
  - destruct IHghist as [Hr Hs]. split; [|apply am_insert_sorted; auto].
    intros q. rewrite (insert_refines d k v d' (ghist_Inv _ _ H) H0 H2 q), am_find_insert.
    destruct (q =? k); auto.
  - destruct IHghist as [Hr Hs]. split; [|apply am_erase_sorted; auto].
    intros q. rewrite (erase_refines d k d' (ghist_Inv _ _ H) H0 H2 q), am_find_erase by auto.
    destruct (q =? k); auto.
Qed.

End RefSec.

(* MappedQueries.v — property C11: the multiset queries of MappedPGMIndex (lower_bound, upper_bound,
   count, contains) return what the std algorithms return on the whole sorted array, for ANY
   approximate range that satisfies the index contract (range_ok). *)
Require Import Base Fp PlaModel GenLeaf IndexModel IndexProofs MappedModel.
From Coq Require Import ZifyBool.
Local Open Scope Z_scope.

(* ---- upper_bound as a counting function: basic facts (analogues of IndexProofs' lb lemmas) ---- *)
Lemma ub_nonneg l q : 0 <= ub l q.
Proof. induction l as [|x t IH]; cbn [ub]; [lia|]. destruct (x <=? q); lia. Qed.

Lemma ub_le_len l q : ub l q <= zlen l.
Proof.
  unfold zlen. induction l as [|x t IH]; cbn [ub length]; [lia|].
  destruct (x <=? q); lia.
Qed.

Lemma lb_le_ub l q : lb l q <= ub l q.
Proof.
  induction l as [|x t IH]; cbn [lb ub]; [lia|].
  pose proof (ub_nonneg t q) as Hu.
  destruct (x <? q) eqn:E1; destruct (x <=? q) eqn:E2; lia.
Qed.

Lemma ub_zero_of_head x t q : sortedb (x :: t) = true -> q < x -> ub t q = 0.
Proof.
  intros Hs Hq. destruct t as [|y t']; [reflexivity|].
  cbn [sortedb] in Hs. apply andb_prop in Hs. destruct Hs as [Hxy _].
  cbn [ub]. destruct (y <=? q) eqn:E; lia.
Qed.

Lemma ub_spec l q : sortedb l = true ->
  (forall i, 0 <= i < ub l q -> nth (Z.to_nat i) l 0 <= q) /\
  (forall i, ub l q <= i < zlen l -> q < nth (Z.to_nat i) l 0).
Proof.
  unfold zlen. induction l as [|x t IH]; intros Hs.
  - cbn [ub length]. split; intros i Hi; lia.
  - pose proof (sortedb_tail _ _ Hs) as Ht. specialize (IH Ht). destruct IH as [IH1 IH2].
    cbn [ub]. destruct (x <=? q) eqn:E.
    + split; intros i Hi.
      * destruct (Z.eq_dec i 0) as [->|Hne]; [cbn; lia|].
        replace (Z.to_nat i) with (S (Z.to_nat (i - 1))) by lia. cbn [nth]. apply IH1. lia.
      * cbn [length] in Hi. pose proof (ub_nonneg t q) as Hnn.
        replace (Z.to_nat i) with (S (Z.to_nat (i - 1))) by lia. cbn [nth]. apply IH2. lia.
    + split; intros i Hi; [lia|].
      destruct (Z.eq_dec i 0) as [->|Hne]; [cbn; lia|].
      cbn [length] in Hi.
      replace (Z.to_nat i) with (S (Z.to_nat (i - 1))) by lia. cbn [nth].
      assert (Hin : In (nth (Z.to_nat (i - 1)) t 0) t) by (apply nth_In; lia).
      pose proof (sortedb_head_le _ _ _ Hs Hin). lia.
Qed.

(* ---- upper_bound on a window: clamping ---- *)
Lemma ub_skipn_clamp l q (k : nat) : sortedb l = true ->
  ub (skipn k l) q = Z.max 0 (ub l q - Z.of_nat k).
Proof.
  revert k. induction l as [|x t IH]; intros k Hs.
  - destruct k; cbn [skipn ub]; lia.
  - destruct k as [|k]; [cbn [skipn]; pose proof (ub_nonneg (x :: t) q); lia|].
    cbn [skipn]. rewrite IH by (eapply sortedb_tail; eauto).
    cbn [ub]. destruct (x <=? q) eqn:E; [lia|].
    rewrite (ub_zero_of_head x t q Hs) by lia. lia.
Qed.

Lemma ub_firstn_clamp l q (k : nat) : ub (firstn k l) q = Z.min (ub l q) (Z.of_nat k).
Proof.
  revert k. induction l as [|x t IH]; intros k.
  - destruct k; cbn [firstn ub]; lia.
  - destruct k as [|k]; [pose proof (ub_nonneg (x :: t) q); cbn [firstn]; change (ub [] q) with 0; lia|].
    cbn [firstn ub]. destruct (x <=? q); [rewrite IH|]; lia.
Qed.

Theorem ub_range_clamp l a b q : sortedb l = true -> 0 <= a -> a <= b ->
  ub_range l a b q = Z.max a (Z.min (ub l q) b).
Proof.
  intros Hs Ha Hab. unfold ub_range, slice.
  rewrite ub_firstn_clamp, ub_skipn_clamp by assumption. lia.
Qed.

(* the analogue of lb_range_eq *)
Theorem ub_range_eq l a b q : sortedb l = true -> 0 <= a -> a <= ub l q -> ub l q <= b ->
  ub_range l a b q = ub l q.
Proof. intros Hs Ha H1 H2. rewrite ub_range_clamp by lia. lia. Qed.

(* ---- reading the array ---- *)
Lemma nth_res_ok (l : list Z) i : 0 <= i < zlen l -> nth_res l i = Ok (nth (Z.to_nat i) l 0).
Proof.
  unfold zlen, nth_res. intros Hi. destruct (i <? 0) eqn:E; [lia|].
  destruct (nth_error l (Z.to_nat i)) as [a|] eqn:En.
  - f_equal. symmetry. apply nth_error_nth. exact En.
  - apply nth_error_None in En. lia.
Qed.

(* ---- occurrences of q on a sorted list are exactly the positions [lb, ub) ---- *)
Lemma occ_lt_ub l q i : sortedb l = true -> 0 <= i < zlen l -> nth (Z.to_nat i) l 0 = q -> i < ub l q.
Proof.
  intros Hs Hi Hq. destruct (ub_spec l q Hs) as [_ H2].
  destruct (Z_lt_ge_dec i (ub l q)) as [Hlt|Hge]; [exact Hlt|].
  specialize (H2 i ltac:(lia)). lia.
Qed.

Lemma occ_ge_lb l q i : sortedb l = true -> 0 <= i < zlen l -> nth (Z.to_nat i) l 0 = q -> lb l q <= i.
Proof.
  intros Hs Hi Hq. destruct (lb_spec l q Hs) as [H1 _].
  destruct (Z_lt_ge_dec i (lb l q)) as [Hlt|Hge]; [|lia].
  specialize (H1 i ltac:(lia)). lia.
Qed.

Lemma nth_in_lb_ub l q i : sortedb l = true -> lb l q <= i < ub l q -> nth (Z.to_nat i) l 0 = q.
Proof.
  intros Hs Hi. destruct (lb_spec l q Hs) as [_ H2]. destruct (ub_spec l q Hs) as [H1 _].
  pose proof (lb_nonneg l q). pose proof (ub_le_len l q).
  specialize (H2 i ltac:(lia)). specialize (H1 i ltac:(lia)). lia.
Qed.

Lemma ne_ge_lb_ub_le l q i : sortedb l = true -> lb l q <= i < zlen l -> nth (Z.to_nat i) l 0 <> q -> ub l q <= i.
Proof.
  intros Hs Hi Hne. destruct (Z_lt_ge_dec i (ub l q)) as [Hlt|Hge]; [|lia].
  exfalso. apply Hne. apply nth_in_lb_ub; [assumption|lia].
Qed.

Lemma In_lb_lt_ub l q : sortedb l = true -> In q l -> lb l q < ub l q.
Proof.
  intros Hs Hin. destruct (In_nth l q 0 Hin) as [j [Hj Hq]].
  pose proof (occ_lt_ub l q (Z.of_nat j) Hs) as H1. pose proof (occ_ge_lb l q (Z.of_nat j) Hs) as H2.
  rewrite Nat2Z.id in H1, H2. unfold zlen in H1, H2.
  specialize (H1 ltac:(lia) Hq). specialize (H2 ltac:(lia) Hq). lia.
Qed.

Lemma In_iff_lb_lt_ub l q : sortedb l = true -> (In q l <-> lb l q < ub l q).
Proof.
  intros Hs. split; [apply In_lb_lt_ub; assumption|]. intros Hlt.
  pose proof (nth_in_lb_ub l q (lb l q) Hs ltac:(lia)) as Hq.
  pose proof (lb_nonneg l q). pose proof (ub_le_len l q). unfold zlen in *.
  rewrite <- Hq. apply nth_In. lia.
Qed.

Lemma existsb_eqb_In l q : existsb (Z.eqb q) l = true <-> In q l.
Proof.
  rewrite existsb_exists. split.
  - intros [x [Hin Hx]]. apply Z.eqb_eq in Hx. subst. exact Hin.
  - intros Hin. exists q. split; [exact Hin|apply Z.eqb_refl].
Qed.

(* ---- the exponential search ---- *)
(* invariant: lb <= it, it + step/2 <= ub; on exit ub <= min (it+step) n.  Fuel: step doubles, and
   continuing needs it + step < n, so S f iterations are enough as soon as n < step * 2^f. *)
Lemma gallop_spec data q it : sortedb data = true -> lb data q <= it ->
  forall (f : nat) step, 1 <= step -> it + step / 2 <= ub data q ->
  zlen data < step * 2 ^ Z.of_nat f ->
  exists step', gallop (S f) data it step q = Ok step' /\ 1 <= step' /\
                it + step' / 2 <= ub data q /\ ub data q <= Z.min (it + step') (zlen data).
Proof.
  intros Hs Hit. pose proof (lb_nonneg data q) as Hl0. pose proof (ub_le_len data q) as Hun.
  induction f as [|f IH]; intros step Hstep Hinv Hfuel.
  - exists step. cbn [gallop]. change (2 ^ Z.of_nat 0) with 1 in Hfuel.
    destruct (it + step <? zlen data) eqn:E; [lia|]. repeat split; try lia.
  - cbn [gallop]. destruct (it + step <? zlen data) eqn:E.
    + rewrite nth_res_ok by lia. cbn [bind].
      destruct (nth (Z.to_nat (it + step)) data 0 =? q) eqn:Eq.
      * apply IH; [lia| |].
        -- pose proof (occ_lt_ub data q (it + step) Hs ltac:(lia) ltac:(lia)) as Hlt.
           replace (step * 2 / 2) with step by (rewrite Z.div_mul; lia). lia.
        -- rewrite Nat2Z.inj_succ, Z.pow_succ_r in Hfuel by lia. lia.
      * exists step. split; [reflexivity|].
        pose proof (ne_ge_lb_ub_le data q (it + step) Hs ltac:(lia) ltac:(lia)). lia.
    + exists step. split; [reflexivity|]. lia.
Qed.

(* ---- the index contract on the approximate range, and C11 ---- *)
Definition range_ok (data : list Z) (q lo hi : Z) : Prop :=
  0 <= lo /\ lo <= lb data q /\ lb data q <= hi /\ hi <= zlen data /\ (In q data -> lb data q < hi).


(* ---- the searches after the range, as functions of (data, lo, hi): what the model's query functions
   run once mapped_range has returned (lo, hi).  These statements do not mention the index, hence no
   Flocq definition, and are closed under the global context. ---- *)
Definition contains_in (data : list Z) (lo hi q : Z) : res bool :=
  let i := lb_range data lo hi q in
  if i <? hi then do x <- nth_res data i; Ok (x =? q) else Ok false.
Definition upper_bound_in (data : list Z) (lo hi q : Z) : res Z :=
  let it := ub_range data lo hi q in
  do step <- gallop 70 data it 1 q;
  Ok (ub_range data (it + step / 2) (Z.min (it + step) (zlen data)) q).
Definition count_in (data : list Z) (l : Z) (u : res Z) (q : Z) : res Z :=
  if l =? zlen data then Ok 0 else
  do x <- nth_res data l;
  if negb (x =? q) then Ok 0 else do u' <- u; Ok (u' - l).

Section Core.
  Variables (data : list Z) (q lo hi : Z).
  Hypothesis Hsorted : sortedb data = true.
  Hypothesis Hok : range_ok data q lo hi.

  Theorem lower_bound_core : lb_range data lo hi q = lb data q.
  Proof. destruct Hok as (H0 & H1 & H2 & H3 & _). apply lb_range_eq; assumption. Qed.

  Theorem contains_core : contains_in data lo hi q = Ok (existsb (Z.eqb q) data).
  Proof.
    destruct Hok as (H0 & H1 & H2 & H3 & H4).
    unfold contains_in. rewrite lower_bound_core. cbn zeta.
    pose proof (lb_nonneg data q) as Hl0. pose proof (lb_le_ub data q) as Hlu.
    pose proof (In_iff_lb_lt_ub data q Hsorted) as Hin. pose proof (existsb_eqb_In data q) as Hex.
    destruct (lb data q <? hi) eqn:E.
    - rewrite nth_res_ok by lia. cbn [bind]. f_equal.
      destruct (nth (Z.to_nat (lb data q)) data 0 =? q) eqn:Eq.
      + symmetry. apply Hex. apply Z.eqb_eq in Eq. rewrite <- Eq. apply nth_In. unfold zlen in H3. lia.
      + destruct (existsb (Z.eqb q) data) eqn:Ee; [|reflexivity].
        assert (Hlt : lb data q < ub data q) by (apply Hin, Hex; reflexivity).
        pose proof (nth_in_lb_ub data q (lb data q) Hsorted ltac:(lia)). lia.
    - f_equal. destruct (existsb (Z.eqb q) data) eqn:Ee; [|reflexivity].
      assert (Hq : In q data) by (apply Hex; reflexivity). specialize (H4 Hq). lia.
  Qed.

  Theorem upper_bound_core : zlen data < 2 ^ 62 -> upper_bound_in data lo hi q = Ok (ub data q).
  Proof.
    intros Hn. destruct Hok as (H0 & H1 & H2 & H3 & H4).
    unfold upper_bound_in. cbn zeta.
    pose proof (lb_le_ub data q) as Hlu. pose proof (ub_le_len data q) as Hun.
    rewrite (ub_range_clamp data lo hi q) by lia.
    set (it := Z.max lo (Z.min (ub data q) hi)).
    destruct (gallop_spec data q it Hsorted ltac:(lia) 69%nat 1 ltac:(lia)) as (step & Hg & Hs1 & Hs2 & Hs3).
    - change (1 / 2) with 0. lia.
    - change (Z.of_nat 69) with 69. lia.
    - change (S 69) with 70%nat in Hg. rewrite Hg. cbn [bind]. f_equal.
      assert (0 <= step / 2) by (apply Z.div_pos; lia).
      apply ub_range_eq; [assumption|lia|lia|lia].
  Qed.

  Theorem count_core : count_in data (lb data q) (Ok (ub data q)) q = Ok (ub data q - lb data q).
  Proof.
    unfold count_in.
    pose proof (lb_nonneg data q) as Hl0. pose proof (lb_le_ub data q) as Hlu.
    pose proof (ub_le_len data q) as Hun. pose proof (lb_le_len data q) as Hln.
    destruct (lb data q =? zlen data) eqn:E; [f_equal; lia|].
    rewrite nth_res_ok by lia. cbn [bind].
    destruct (nth (Z.to_nat (lb data q)) data 0 =? q) eqn:Eq; cbn [negb]; [reflexivity|].
    pose proof (ne_ge_lb_ub_le data q (lb data q) Hsorted ltac:(lia) ltac:(lia)). f_equal. lia.
  Qed.
End Core.

(* the model's functions are exactly: mapped_range, then the searches above (by computation) *)
Lemma mapped_upper_bound_unfold c m q :
  mapped_upper_bound c m q = do r <- mapped_range c m q; upper_bound_in (mp_data m) (fst r) (snd r) q.
Proof. reflexivity. Qed.
Lemma mapped_contains_unfold c m q :
  mapped_contains c m q = do r <- mapped_range c m q; contains_in (mp_data m) (fst r) (snd r) q.
Proof. reflexivity. Qed.
Lemma mapped_count_unfold c m q :
  mapped_count c m q = do l <- mapped_lower_bound c m q; count_in (mp_data m) l (mapped_upper_bound c m q) q.
Proof. reflexivity. Qed.

(* ---- C11 on the model's functions ---- *)
Section C11.
  Variables (c : cfg) (m : mapped) (q : Z) (data : list Z) (lo hi : Z).
  Hypothesis Hdata : mp_data m = data.
  Hypothesis Hsorted : sortedb data = true.
  Hypothesis Hrange : mapped_range c m q = Ok (lo, hi).
  Hypothesis Hok : range_ok data q lo hi.

  Theorem lower_bound_spec : mapped_lower_bound c m q = Ok (lb data q).
  Proof.
    unfold mapped_lower_bound. rewrite Hrange. cbn [bind fst snd]. rewrite Hdata.
    rewrite (lower_bound_core data q lo hi Hsorted Hok). reflexivity.
  Qed.

  Theorem contains_spec : mapped_contains c m q = Ok (existsb (Z.eqb q) data).
  Proof.
    unfold mapped_contains. rewrite Hrange. cbn [bind fst snd]. rewrite Hdata.
    exact (contains_core data q lo hi Hsorted Hok).
  Qed.

  Theorem upper_bound_spec : zlen data < 2 ^ 62 -> mapped_upper_bound c m q = Ok (ub data q).
  Proof.
    intros Hn. unfold mapped_upper_bound. rewrite Hrange. cbn [bind fst snd]. rewrite Hdata.
    exact (upper_bound_core data q lo hi Hsorted Hok Hn).
  Qed.

  Theorem count_spec : zlen data < 2 ^ 62 -> mapped_count c m q = Ok (ub data q - lb data q).
  Proof.
    intros Hn. unfold mapped_count. rewrite lower_bound_spec, (upper_bound_spec Hn). cbn [bind].
    rewrite Hdata. exact (count_core data q Hsorted).
  Qed.
End C11.


(* ---- non-vacuity: a built container over data with a long run of duplicates; the range the index
   returns for q = 7 is [3,7), the run of 7s is [3,15): the gallop really runs (steps 1,2,4,8) ---- *)
Definition ex_cfg := mkCfg (mkK 32 false) 1 1 true 1 false.
Definition ex_data := [1;3;3;7;7;7;7;7;7;7;7;7;7;7;7;9;12;12;20].

Definition res_is {A} (e : A -> A -> bool) (r : res A) (v : A) : bool :=
  match r with Ok a => e a v | Err _ => false end.
Lemma res_is_Z r v : res_is Z.eqb r v = true -> r = Ok v.
Proof. destruct r as [a|e]; cbn [res_is]; [|discriminate]. intros H. f_equal. lia. Qed.
Lemma res_is_bool r v : res_is Bool.eqb r v = true -> r = Ok v.
Proof. destruct r as [a|e]; cbn [res_is]; [|discriminate]. intros H. f_equal. apply eqb_prop. exact H. Qed.
Definition pair_eqb (a b : Z * Z) : bool := (fst a =? fst b) && (snd a =? snd b).
Lemma res_is_pair r v : res_is pair_eqb r v = true -> r = Ok v.
Proof.
  destruct r as [[a1 a2]|e]; cbn [res_is]; [|discriminate]. destruct v as [v1 v2].
  unfold pair_eqb; cbn [fst snd]. intros H. f_equal. f_equal; lia.
Qed.

Definition ex_check (m : mapped) : bool :=
  (if list_eq_dec Z.eq_dec (mp_data m) ex_data then true else false) &&
  res_is pair_eqb (mapped_range ex_cfg m 7) (3, 7) &&
  res_is Z.eqb (mapped_lower_bound ex_cfg m 7) 3 && res_is Z.eqb (mapped_upper_bound ex_cfg m 7) 15 &&
  res_is Z.eqb (mapped_count ex_cfg m 7) 12 && res_is Bool.eqb (mapped_contains ex_cfg m 7) true &&
  res_is Z.eqb (mapped_count ex_cfg m 8) 0 && res_is Bool.eqb (mapped_contains ex_cfg m 8) false.

Lemma ex_checked : match from_range ex_cfg ex_data with Ok m => ex_check m = true | Err _ => False end.
Proof. vm_compute. reflexivity. Qed.

Example C11_instance :
  exists m, from_range ex_cfg ex_data = Ok m /\ mp_data m = ex_data /\ sortedb ex_data = true /\
    mapped_range ex_cfg m 7 = Ok (3, 7) /\ range_ok ex_data 7 3 7 /\
    mapped_lower_bound ex_cfg m 7 = Ok 3 /\ mapped_upper_bound ex_cfg m 7 = Ok 15 /\
    mapped_count ex_cfg m 7 = Ok 12 /\ mapped_contains ex_cfg m 7 = Ok true /\
    mapped_count ex_cfg m 8 = Ok 0 /\ mapped_contains ex_cfg m 8 = Ok false.
Proof.
  pose proof ex_checked as H. destruct (from_range ex_cfg ex_data) as [m|e]; [|contradiction].
  exists m. unfold ex_check in H. repeat (apply andb_prop in H; destruct H as [H ?H]).
  destruct (list_eq_dec Z.eq_dec (mp_data m) ex_data) as [Hd|]; [|discriminate].
  split; [reflexivity|]. split; [exact Hd|]. split; [vm_compute; reflexivity|].
  split; [apply res_is_pair; assumption|].
  split; [unfold range_ok; change (lb ex_data 7) with 3; change (zlen ex_data) with 19; lia|].
  split; [apply res_is_Z; assumption|]. split; [apply res_is_Z; assumption|].
  split; [apply res_is_Z; assumption|]. split; [apply res_is_bool; assumption|].
  split; [apply res_is_Z; assumption|apply res_is_bool; assumption].
Qed.

(* the theorems instantiated on it (their hypotheses are jointly satisfiable) *)
Example C11_instance_via_theorems :
  exists m, from_range ex_cfg ex_data = Ok m /\
    mapped_upper_bound ex_cfg m 7 = Ok (ub ex_data 7) /\ mapped_count ex_cfg m 7 = Ok (ub ex_data 7 - lb ex_data 7).
Proof.
  destruct C11_instance as (m & Hm & Hd & Hs & Hr & Hok & _).
  exists m. split; [exact Hm|].
  assert (Hn : zlen ex_data < 2 ^ 62) by (vm_compute; reflexivity).
  split; [exact (upper_bound_spec _ _ _ _ _ _ Hd Hs Hr Hok Hn)|exact (count_spec _ _ _ _ _ _ Hd Hs Hr Hok Hn)].
Qed.

Print Assumptions lower_bound_spec.
Print Assumptions upper_bound_spec.
Print Assumptions count_spec.
Print Assumptions contains_spec.
Print Assumptions C11_instance.
(* The four axioms listed above are those of Coq's Reals library; they enter through the DEFINITION
   of mapped_range (search -> Flocq's Bmult/binary_normalize carry proofs about reals), i.e. through
   the statements, not through these proofs.  The cores, which are everything the proofs add, are closed: *)
Print Assumptions lower_bound_core.
Print Assumptions upper_bound_core.
Print Assumptions count_core.
Print Assumptions contains_core.
Print Assumptions gallop_spec.

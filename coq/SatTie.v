(* SatTie.v — the saturation limits used by the models (seg_eval: 2^63; fmul_to_i64 / efseg_eval: 2^62) are the values of
   the expressions REGENERATED from the source by T1 after the conversion to the Floating type (round to nearest):
   `p >= Floating(L)` for an integral float limit is `truncZ p >= truncZ (Floating L)`. *)
Require Import Base Fp GenLeaf.
Local Open Scope Z_scope.

Lemma cmp_level_far_double : truncZ (ofZ64 cmp_level_far_arg) = Some (2 ^ 62).
Proof. vm_compute. reflexivity. Qed.
Lemma cmp_level_far_float : truncZ (ofZ32 cmp_level_far_arg) = Some (2 ^ 62).
Proof. vm_compute. reflexivity. Qed.
Lemma cmp_root_far_double : truncZ (ofZ64 cmp_root_far_arg) = Some (2 ^ 62).
Proof. vm_compute. reflexivity. Qed.
Lemma cmp_root_far_float : truncZ (ofZ32 cmp_root_far_arg) = Some (2 ^ 62).
Proof. vm_compute. reflexivity. Qed.
Lemma efi_far_double : truncZ (ofZ64 efi_far_arg) = Some (2 ^ 62).
Proof. vm_compute. reflexivity. Qed.
Lemma efi_far_float : truncZ (ofZ32 efi_far_arg) = Some (2 ^ 62).
Proof. vm_compute. reflexivity. Qed.
(* Segment::operator(): pos >= double(too_far) with too_far = SIZE_MAX / 2 = 2^63 - 1, double(too_far) = 2^63; returns too_far *)
Lemma pgm_too_far_value : pgm_too_far = 2 ^ 63 - 1 /\ truncZ (ofZ64 pgm_too_far) = Some (2 ^ 63).
Proof. split; vm_compute; reflexivity. Qed.
(* below the limit the sum with any intercept of magnitude < 2^62 cannot leave int64_t (no signed overflow) *)
Lemma below_limit_no_overflow : forall p icpt, 0 <= p < 2 ^ 62 -> - 2 ^ 62 <= icpt < 2 ^ 62 -> wrapS 64 (p + icpt) = p + icpt.
Proof.
  intros p icpt Hp Hi. unfold wrapS.
  assert (E : 2 ^ 64 = 18446744073709551616) by reflexivity. assert (E2 : 2 ^ 62 = 4611686018427387904) by reflexivity.
  assert (E3 : 2 ^ (64 - 1) = 9223372036854775808) by reflexivity.
  rewrite ?E, ?E3 in *. rewrite E2 in *.
  repeat match goal with |- context [if ?b then _ else _] => destruct b eqn:? end;
  try (rewrite Z.mod_small in * by lia; lia).
  all: try (assert (p + icpt < 0) by (destruct (Z_lt_dec (p + icpt) 0); [assumption | rewrite Z.mod_small in * by lia; lia]);
            replace ((p + icpt) mod 18446744073709551616) with (p + icpt + 18446744073709551616) in *
              by (symmetry; apply Z.mod_unique with (-1); lia); lia).
Qed.

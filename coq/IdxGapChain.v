(* IdxGapChain.v — the chain of levels built by PGMIndex::build, with the additional invariant that
   at every level all real segment keys except the last one are at most last_data_key + 1. *)
Require Import Base Fp PlaModel PlaSpec PlaComplete GenLeaf IndexModel IndexProofs MappedQueries IdxFed IdxSeg IdxBlock IdxLevel IdxSearch0 IdxRoute IdxChain IdxMain IdxBeyond IdxFuel IdxGapPla IdxGap.
From Coq Require Import ZifyBool.
Local Open Scope Z_scope.

Lemma idx_pts_In_x l : forall i x y, In (x, y) (idx_pts l i) -> In x l.
Proof.
  induction l as [|a t IH]; intros i x y H; [contradiction|]. cbn [idx_pts] in H.
  destruct H as [H|H]; [injection H as -> _; left; reflexivity | right; eapply IH; eauto].
Qed.

(* level 0: every real key is the abscissa of a fed point of the data, hence <= last + 1 *)
Lemma tail1_level0 c k r : 1 <= kbits (c_kt c) -> lrec_ok c (last (lr_keys r) 0) k r ->
  tail1 (last (lr_keys r) 0) (lr_new r).
Proof.
  intros Hb Hok i Hi0 Hi1. pose proof Hok as (Hne & Hs & Hk & He & Hcat & HL & Ht).
  pose proof (lf_nowrap c _ k r Hb Hok) as Hw.
  destruct (lf_key_fed c _ k r Hok (sg_key (nth (Z.to_nat i) (lr_new r) dseg))) as (y & Hy).
  { rewrite <- nth_map_key. apply nth_In. rewrite map_length. unfold zlen in *. lia. }
  pose proof (fed_spec_x_le _ _ _ Hne Hs Hw Hy) as Hle. cbn [fst] in Hle. exact Hle.
Qed.

Lemma ssorted_mid_lt l1 : forall a b l2, ssortedb (l1 ++ a :: b :: l2) = true -> a < b.
Proof.
  induction l1 as [|x t IH]; intros a b l2 H.
  - cbn [app] in H. destruct (ssortedb_inv a (b :: l2) H) as [H1 _]. apply H1. left. reflexivity.
  - cbn [app] in H. destruct (ssortedb_inv x _ H) as [_ H2]. eapply IH; eauto.
Qed.

(* a key of the next level that exceeds last_data_key + 1 is that level's last key *)
Lemma big_key_is_last c ldk k r x :
  1 <= kbits (c_kt c) -> lrec_ok c ldk k r -> tail1 ldk (lr_new r) ->
  let keys' := map sg_key (firstn (Z.to_nat (lr_ln r)) (lr_L r)) in
  In x keys' -> ldk + 1 < x -> x = last keys' 0.
Proof.
  intros Hb Hok Ht1 keys' Hx Hgt.
  destruct (next_keys c ldk k r Hb Hok) as (Hl1 & Hl2 & Hz & Ek & _). fold keys' in Hz, Ek.
  destruct (In_nth keys' x 0 Hx) as (j & Hj & Ej).
  assert (Hne : keys' <> []) by (intros E; rewrite E in Hx; contradiction).
  rewrite (last_dat keys' 0 Hne). unfold dat. rewrite Hz.
  destruct (Z_lt_ge_dec (Z.of_nat j + 1) (lr_ln r)) as [Hlt|Hge].
  - exfalso. unfold keys' in Ej. rewrite nth_map_key in Ej. rewrite nth_firstn_lt in Ej by lia.
    unfold lr_L in Ej. rewrite app_nth1 in Ej by (unfold zlen in *; lia).
    specialize (Ht1 (Z.of_nat j) ltac:(lia) ltac:(lia)). rewrite Nat2Z.id in Ht1. lia.
  - rewrite <- Ej. f_equal. unfold zlen in *. lia.
Qed.

Lemma tail1_step c ldk k r r' fed cnt :
  1 <= kbits (c_kt c) -> 1 <= c_par c -> lrec_ok c ldk k r -> lrec_ok c ldk k r' -> link c r r' ->
  1 <= c_epsrec c -> zlen (lr_keys r') + 1 + c_epsrec c < 2 ^ 64 - 1 ->
  make_segmentation_par (c_kt c) par_threshold (c_par c) (zlen (lr_keys r')) (c_epsrec c) (lr_keys r')
    = Ok (lr_css r', fed, cnt) ->
  tail1 ldk (lr_new r) -> tail1 ldk (lr_new r').
Proof.
  intros Hb Hpar Hok Hok' (Lk & Le & Lz) He1 Hsz M1 Ht1 i Hi0 Hi1.
  destruct (Z_le_gt_dec (sg_key (nth (Z.to_nat i) (lr_new r') dseg)) (ldk + 1)) as [Hle|Hgt]; [exact Hle|exfalso].
  destruct (next_keys c ldk k r Hb Hok) as (_ & _ & _ & _ & Hss & _). rewrite <- Lk in Hss.
  pose proof Hok' as (Hne' & Hs' & _ & _ & Hcat' & HL' & _).
  pose proof (lf_nowrap c ldk k r' Hb Hok') as Hw'.
  pose proof (lf_ssorted c ldk k r' Hb Hok') as Hssn.
  destruct (Lv_split _ _ _ _ _ _ i HL' ltac:(lia))
    as (c1 & cs & c2 & g1 & b & g2 & n1 & s & n2 & E1 & E2 & E3 & E4 & R1 & R2 & R3 & R4).
  rewrite E3, <- E4, nth_mid in Hgt.
  assert (Hn2 : n2 <> []).
  { intros ->. rewrite E3, zlen_app, zlen_cons, zlen_nil in Hi1. lia. }
  inversion R4 as [|cs2 b2 s2 c2' g2' n2' Q1 Q2 Q3 Q4 Ec Eg En]; [subst n2; contradiction|]. subst c2 g2 n2.
  assert (Hab : sg_key s < sg_key s2).
  { rewrite E3, map_app in Hssn. cbn [map] in Hssn. exact (ssorted_mid_lt _ _ _ _ Hssn). }
  assert (Hfed : forall x, In x (map sg_key (lr_new r')) -> ldk + 1 < x ->
                 x = last (lr_keys r') 0 \/ x = last (lr_keys r') 0 + 1).
  { intros x Hx Hxg. destruct (lf_key_fed c ldk k r' Hok' x Hx) as (y & Hy).
    rewrite (fed_spec_ssorted (c_kt c) (lr_keys r') Hne' Hss Hw') in Hy.
    apply idx_pts_In_x in Hy. apply in_app_or in Hy. destruct Hy as [Hy|[<-|[]]]; [left|right; reflexivity].
    rewrite Lk in Hy |- *. exact (big_key_is_last c ldk k r x Hb Hok Ht1 Hy Hxg). }
  assert (Ha : In (sg_key s) (map sg_key (lr_new r'))).
  { rewrite E3, map_app. apply in_or_app. right. left. reflexivity. }
  assert (Hbk : In (sg_key s2) (map sg_key (lr_new r'))).
  { rewrite E3, map_app. apply in_or_app. right. right. left. reflexivity. }
  destruct (Hfed _ Ha ltac:(lia)) as [Ea|Ea]; destruct (Hfed _ Hbk ltac:(lia)) as [Eb|Eb]; try lia.
  destruct (seg_of_cseg_spec c cs s R2) as (Ks & _). destruct (seg_of_cseg_spec c cs2 s2 Q2) as (Ks2 & _).
  apply (no_split_tail _ _ _ _ _ _ _ _ M1 Hpar Hne' Hss Hw' Hsz He1 c1 cs cs2 c2' E1); lia.
Qed.

(* an upper level: built over at least two keys, and (2*eps_r+1) * (number of its segments that the
   next level indexes) <= number of its keys + (2*eps_r+1) (+ the chunking term of the parallel driver) *)
Definition shrinkP (c : cfg) (r : lrec) : Prop :=
  2 <= zlen (lr_keys r) /\ lr_ln r * (2 * c_epsrec c + 1) <=
    zlen (lr_keys r) + (2 * c_epsrec c + 1) +
    (if (c_par c =? 1) || (zlen (lr_keys r) <? par_threshold) then 0 else (c_par c - 1) * (2 * c_epsrec c + 1)).

(* one iteration of the loop in build, carrying tail1 *)
Lemma build_upper_step2 c ldk k r rl segs1 ln1 :
  1 <= kbits (c_kt c) -> 1 <= c_par c -> 1 <= c_epsrec c ->
  lrec_ok c ldk k r -> 1 < lr_ln r -> lr_ln r + 1 + c_epsrec c < 2 ^ 64 - 1 ->
  tail1 ldk (lr_new r) ->
  let keys' := map sg_key (firstn (Z.to_nat (lr_ln r)) (lr_L r)) in
  level_float_ok_cap c (c_epsrec c) keys' ldk k ->
  build_level c (c_epsrec c) keys' (lr_ln r) ldk (below (r :: rl)) = Ok (segs1, ln1) ->
  exists r', lrec_ok c ldk k r' /\ link c r r' /\ segs1 = below (r' :: r :: rl) /\ lr_ln r' = ln1 /\
             tail1 ldk (lr_new r') /\ shrinkP c r'.
Proof.
  intros Hb Hpar He1 Hok Hln Hsz' Ht1 keys' Hfl H.
  destruct (next_keys c ldk k r Hb Hok) as (Hl1 & Hl2 & Hz & Ek & Hss & Hko & Hhd). fold keys' in Hz, Ek, Hss, Hko, Hhd.
  assert (Hne' : keys' <> []) by (intros E; rewrite E in Hz; change (zlen (@nil Z)) with 0 in Hz; lia).
  pose proof (ssortedb_sorted _ Hss) as Hs'. pose proof (key_ok_nowrap _ _ Hb Hko) as Hw'.
  rewrite <- Hz in H.
  destruct (build_level_desc _ _ _ _ _ _ _ H Hpar Hne' Hs' Hw' ltac:(lia))
    as (css & fed & cnt & g & new & T & M1 & M2 & Es & Hcat & F1 & F2 & He & Htail).
  destruct (Hfl css fed cnt new M1 M2) as [Fev _].
  pose proof (Lv_of_Forall2 c (c_epsrec c) (EvalOKc (zlen keys' + c_epsrec c) c k) css g new F1 F2 Fev) as HL.
  destruct (Lv_first_key c _ _ (c_kt c) keys' css g new Hne' Hcat HL) as [Hnn _].
  set (r' := mkL keys' (c_epsrec c) css g new T ln1).
  assert (Hok' : lrec_ok c ldk k r').
  { unfold lrec_ok, r'. cbn [lr_keys lr_eps lr_css lr_g lr_new lr_T lr_ln].
    do 6 (split; [assumption|]). eapply tail_ok_last; eauto. }
  assert (Hlink : link c r r').
  { unfold link, r'. cbn [lr_keys lr_eps]. split; [reflexivity|]. split; [reflexivity | exact Hz]. }
  exists r'. split; [exact Hok'|]. split; [exact Hlink|]. split; [|split; [reflexivity|split]].
  - rewrite Es, (below_cons r'). unfold lr_L, r'. cbn [lr_new lr_T]. reflexivity.
  - apply (tail1_step c ldk k r r' fed cnt Hb Hpar Hok Hok' Hlink He1); [|exact M1|exact Ht1].
    unfold r'. cbn [lr_keys]. lia.
  - unfold shrinkP, r'. cbn [lr_keys lr_ln]. split; [lia|].
    pose proof (upper_count _ _ _ _ _ _ _ _ M1 Hpar Hne' Hss Hw' ltac:(lia) ltac:(lia)) as Hc.
    assert (Hln1 : ln1 <= zlen new) by (destruct Htail as [(_ & _ & ->)|(_ & -> & _)]; lia).
    destruct (Lv_len _ _ _ _ _ _ HL) as [Lg Lc].
    assert (Ecnt : cnt = zlen new).
    { destruct (level_blocks _ _ _ _ _ _ _ _ M1 Hpar Hne' Hs' Hw' ltac:(lia)) as (g0 & G1 & G2 & G3 & _).
      pose proof (Forall2_len _ _ _ _ _ G2) as E1. unfold zlen in *. lia. }
    rewrite Ecnt in Hc. nia.
Qed.

Definition T1 (ldk : Z) (r : lrec) : Prop := tail1 ldk (lr_new r).

Lemma build_upper_chain2 c ldk k :
  1 <= kbits (c_kt c) -> 1 <= c_par c -> 1 <= c_epsrec c -> c_epsrec c + 2 ^ 32 < 2 ^ 64 - 1 ->
  forall fuel rl r segsF offsF,
    chainR c ldk k (r :: rl) -> Forall (T1 ldk) (r :: rl) ->
    upper_float_ok_cap c fuel ldk (below (r :: rl)) (offs_of (r :: rl)) (lr_ln r) k ->
    build_upper c fuel ldk (below (r :: rl)) (offs_of (r :: rl)) (lr_ln r) = Ok (segsF, offsF) ->
    zlen segsF < 2 ^ 32 ->
    exists up, chainR c ldk k (up ++ r :: rl) /\ segsF = below (up ++ r :: rl) /\
               offsF = offs_of (up ++ r :: rl) /\
               lr_ln (hd r (up ++ r :: rl)) <= 1 /\ Forall (T1 ldk) (up ++ r :: rl) /\ Forall (shrinkP c) up.
Proof.
  intros Hb Hpar He1 He64. induction fuel as [|f IH]; intros rl r segsF offsF Hch HT Hfl H Hsz.
  - cbn [build_upper] in H. destruct ((c_epsrec c =? 0) || (lr_ln r <=? 1)) eqn:Ec; [|discriminate H].
    injection H as <- <-. exists []. cbn [app hd]. split; [exact Hch|]. split; [reflexivity|]. split; [reflexivity|].
    split; [|split; [exact HT|constructor]]. apply orb_true_iff in Ec. destruct Ec as [Ec|Ec]; lia.
  - cbn [build_upper upper_float_ok_cap] in H, Hfl.
    destruct ((c_epsrec c =? 0) || (lr_ln r <=? 1)) eqn:Ec.
    { injection H as <- <-. exists []. cbn [app hd]. split; [exact Hch|]. split; [reflexivity|]. split; [reflexivity|].
      split; [|split; [exact HT|constructor]]. apply orb_true_iff in Ec. destruct Ec as [Ec|Ec]; lia. }
    assert (Eoff : nth (length (offs_of (r :: rl)) - 2) (offs_of (r :: rl)) 0 = zlen (below rl)).
    { rewrite offs_len. cbn [length]. replace (S (S (length rl)) - 2)%nat with (length rl) by lia.
      exact (offs_nth [r] rl). }
    rewrite Eoff in H, Hfl.
    assert (Esk : skipn (Z.to_nat (zlen (below rl))) (below (r :: rl)) = lr_L r).
    { rewrite below_cons. apply skipn_zlen_app. }
    rewrite Esk in H, Hfl. destruct Hfl as [Hfl1 Hfl2].
    match type of H with bind ?e _ = _ => destruct e as [[segs1 ln1]|e1] eqn:E end; cbn [bind] in H; [|discriminate H].
    destruct (build_upper_grows _ _ _ _ _ _ _ _ H) as (m2 & Em2).
    destruct (build_level_grows _ _ _ _ _ _ _ _ E) as (m1 & Em1).
    assert (Hsz1 : zlen (below (r :: rl)) < 2 ^ 32).
    { rewrite Em2, Em1, !zlen_app in Hsz. pose proof (zlen_ge0 m1). pose proof (zlen_ge0 m2). lia. }
    assert (Hok : lrec_ok c ldk k r) by (cbn [chainR] in Hch; tauto).
    assert (Hln64 : lr_ln r + 1 + c_epsrec c < 2 ^ 64 - 1).
    { destruct (next_keys c ldk k r Hb Hok) as (_ & Hl2 & _). pose proof (zlen_below_cons_ge0 r rl). lia. }
    destruct (build_upper_step2 c ldk k r rl segs1 ln1 Hb Hpar He1 Hok ltac:(lia) Hln64 (Forall_inv HT) Hfl1 E)
      as (r' & Hok' & Hlink & Es1 & Eln1 & Ht' & Hsh').
    subst ln1. rewrite Es1 in H, Hfl2.
    assert (Hch' : chainR c ldk k (r' :: r :: rl)) by (cbn [chainR]; cbn [chainR] in Hch; tauto).
    destruct (IH (r :: rl) r' segsF offsF Hch' ltac:(constructor; assumption) Hfl2 H Hsz) as (up & U1 & U2 & U3 & U4 & U5 & U6).
    exists (up ++ [r']). rewrite <- !app_assoc. cbn [app]. split; [exact U1|]. split; [exact U2|]. split; [exact U3|].
    split; [|split; [exact U5|apply Forall_app; split; [exact U6|constructor; [exact Hsh'|constructor]]]].
    destruct up; cbn [app hd] in *; exact U4.
Qed.

Theorem build_chain_gap c data ix k :
  1 <= kbits (c_kt c) -> 1 <= c_par c -> 1 <= c_epsrec c -> c_epsrec c + 2 ^ 32 < 2 ^ 64 - 1 ->
  data <> [] -> sortedb data = true -> Forall (fun x => in_ktype (c_kt c) x = true) data ->
  last_z data < sentinel c -> zlen data + c_eps c < 2 ^ 64 - 1 ->
  float_ok_cap c data k -> build c data = Ok ix -> zlen (ix_segments ix) < 2 ^ 32 ->
  exists up r0,
    chainR c (last_z data) k (up ++ [r0]) /\ lr_keys r0 = data /\
    ix = mkIndex (zlen data) (hd 0 data) (below (up ++ [r0])) (offs_of (up ++ [r0])) /\
    lr_ln (hd r0 (up ++ [r0])) <= 1 /\
    Forall (T1 (last_z data)) (up ++ [r0]) /\ Forall (shrinkP c) up /\
    (extra_test c (zlen data) (last (lr_new r0) dseg) = true ->
     sg_key (extra_seg c (last_z data) (zlen data)) <= k -> k < sentinel c ->
     eval_ok c 1 0 (extra_seg c (last_z data) (zlen data)) k).
Proof.
  intros Hb Hpar He1 He64 Hne Hs Hkt Hlast Hn64 [Hf0 Hfu] H Hsz.
  unfold build in H.
  assert (Hn : zlen data <> 0) by (destruct data; [contradiction|]; rewrite zlen_cons; pose proof (zlen_ge0 data); lia).
  replace (zlen data =? 0) with false in H by lia.
  destruct (last_z data =? sentinel c) eqn:E1; [discriminate H|].
  destruct (build_level c (c_eps c) data (zlen data) (last_z data) []) as [[segs ln]|e] eqn:E2;
    cbn [bind] in H; [|discriminate H].
  destruct (build_upper c (length data + 2) (last_z data) segs [0; zlen segs] ln) as [[segsF offsF]|e] eqn:E3;
    cbn [bind] in H; [|discriminate H].
  injection H as <-. cbn [fst snd ix_segments] in *.
  assert (Hko : Forall (key_ok (c_kt c)) data).
  { rewrite Forall_forall in *. intros x Hx. split; [apply Hkt; exact Hx|].
    pose proof (sorted_le_last data x 0 Hs Hx). unfold last_z, sentinel in *. lia. }
  pose proof (key_ok_nowrap _ _ Hb Hko) as Hw.
  destruct (build_level_desc _ _ _ _ _ _ _ E2 Hpar Hne Hs Hw Hn64)
    as (css & fed & cnt & g & new & T & M1 & M2 & Es & Hcat & F1 & F2 & He & Htail).
  cbn [app] in Es, Htail.
  destruct (Hf0 css fed cnt new M1 M2) as [Fev Fext].
  pose proof (Lv_of_Forall2 c (c_eps c) (EvalOKc (zlen data + c_eps c) c k) css g new F1 F2 Fev) as HL.
  set (r0 := mkL data (c_eps c) css g new T ln).
  assert (Hok0 : lrec_ok c (last_z data) k r0).
  { unfold lrec_ok, r0. cbn [lr_keys lr_eps lr_css lr_g lr_new lr_T lr_ln]. do 6 (split; [assumption|]). exact Htail. }
  assert (Eb : below [r0] = segs).
  { unfold below. cbn [rev app map concat]. rewrite app_nil_r. unfold lr_L, r0. cbn [lr_new lr_T]. symmetry. exact Es. }
  assert (Eo : offs_of [r0] = [0; zlen segs]) by (cbn [offs_of app]; rewrite Eb; reflexivity).
  assert (Hch0 : chainR c (last_z data) k [r0]) by (cbn [chainR]; split; [exact Hok0 | reflexivity]).
  assert (HT0 : Forall (T1 (last_z data)) [r0]).
  { constructor; [|constructor]. unfold T1. exact (tail1_level0 c k r0 Hb Hok0). }
  rewrite <- Eo in E3, Hfu. rewrite <- Eb in E3, Hfu. change ln with (lr_ln r0) in E3, Hfu.
  destruct (build_upper_chain2 c (last_z data) k Hb Hpar He1 He64 _ [] r0 segsF offsF Hch0 HT0 Hfu E3 Hsz)
    as (up & U1 & U2 & U3 & U4 & U5 & U6).
  exists up, r0. split; [exact U1|]. split; [reflexivity|]. split; [rewrite U2, U3; reflexivity|].
  split; [exact U4|]. split; [exact U5|]. split; [exact U6 | exact Fext].
Qed.
Print Assumptions build_chain_gap.
